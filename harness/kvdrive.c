/*
  kvdrive - conformance harness for the TLA+ specification of kalign.

  Executes a scenario script (one command per line) against the real library,
  linked statically with the verification hooks enabled, and writes one NDJSON
  trace: hook events interleaved with Call / Ret / Obj / Arr / Table events.
  It knows nothing about expected results: all judgement is done by TLC on
  the trace.

  usage: kvdrive -s <script> -o <trace.ndjson>
*/
#define _GNU_SOURCE
#include <stdio.h>
#include <stdlib.h>
#include <string.h>
#include <stdint.h>
#include <signal.h>
#include <unistd.h>
#include <ctype.h>
#include <math.h>
#include <malloc.h>

#include "kalign/kalign.h"
#include "msa_struct.h"
#include "msa_op.h"
#include "msa_alloc.h"
#include "aln_param.h"
#include "alphabet.h"
#include "bpm.h"
#include "kalign_verif.h"

#define MAXH 16
#define MAXTOK 4096

static struct msa* H[MAXH];
static FILE* sink = NULL;
static int sink_fd = -1;

/* ------------------------------------------------------------------ */
struct sb { char* s; size_t n, cap; };
static void sb_init(struct sb* b){ b->cap = 1024; b->n = 0; b->s = malloc(b->cap); b->s[0] = 0; }
static void sb_need(struct sb* b, size_t e){ if(b->n + e + 1 > b->cap){ while(b->n + e + 1 > b->cap) b->cap *= 2; b->s = realloc(b->s, b->cap);} }
static void sb_str(struct sb* b, const char* s){ size_t l = strlen(s); sb_need(b,l); memcpy(b->s+b->n, s, l+1); b->n += l; }
static void sb_int(struct sb* b, long v){ char t[32]; snprintf(t,sizeof t,"%ld",v); sb_str(b,t); }
static void sb_kint(struct sb* b, const char* k, long v){ if(b->n) sb_str(b,","); sb_str(b,"\""); sb_str(b,k); sb_str(b,"\":"); sb_int(b,v); }
static void sb_key(struct sb* b, const char* k){ if(b->n) sb_str(b,","); sb_str(b,"\""); sb_str(b,k); sb_str(b,"\":"); }
static void sb_kstr(struct sb* b, const char* k, const char* v)
{
        sb_key(b,k); sb_str(b,"\"");
        for(const char* p = v; *p; p++){
                char t[8];
                unsigned char c = (unsigned char)*p;
                if(c == '"' || c == '\\' || c < 32 || c > 126){ snprintf(t,sizeof t,"_"); }else{ t[0] = (char)c; t[1] = 0; }
                sb_str(b,t);
        }
        sb_str(b,"\"");
}
static void sb_chars(struct sb* b, const char* s, int n)
{
        sb_str(b,"[");
        for(int i = 0; i < n; i++){ if(i) sb_str(b,","); sb_int(b,(unsigned char)s[i]); }
        sb_str(b,"]");
}
static void sb_ints(struct sb* b, const int* a, int n)
{
        sb_str(b,"[");
        for(int i = 0; i < n; i++){ if(i) sb_str(b,","); sb_int(b,a[i]); }
        sb_str(b,"]");
}
static uint32_t dg_bytes(uint64_t h, const void* p, size_t n)
{
        const unsigned char* c = p;
        for(size_t i = 0; i < n; i++){ h ^= c[i]; h *= 1099511628211ULL; }
        return (uint32_t)((h ^ (h >> 30) ^ (h >> 60)) & 0x3fffffffULL);
}
static void emit(const char* ev, struct sb* b)
{
        kv_raw(ev, b ? b->s : NULL);
        if(b){ free(b->s); }
}

/* ------------------------------------------------------------------ */
static void crash(int sig)
{
        char buf[96];
        int n = snprintf(buf, sizeof buf, "{\"e\":\"Crash\",\"q\":-1,\"t\":0,\"sig\":%d}\n", sig);
        if(sink){ fflush(sink); }
        if(sink_fd >= 0){ ssize_t w = write(sink_fd, buf, (size_t)n); (void)w; }
        _exit(70);
}

/* ------------------------------------------------------------------ */
static long heap_in_use(void)
{
        struct mallinfo2 mi = mallinfo2();
        return (long)(mi.uordblks + mi.hblkhd);
}

static void obj_event(const char* tag, int h, struct msa* m, int full)
{
        struct sb b; sb_init(&b);
        sb_kstr(&b,"tag",tag);
        sb_kint(&b,"h",h);
        if(!m){ sb_kint(&b,"null",1); emit("Obj",&b); return; }
        sb_kint(&b,"null",0);
        sb_kint(&b,"n",m->numseq);
        sb_kint(&b,"status",m->aligned);
        sb_kint(&b,"final",m->aligned == ALN_STATUS_FINAL ? 1 : 0);
        sb_kint(&b,"biotype",m->biotype);
        sb_kint(&b,"L",m->L);
        sb_kint(&b,"alnlen",m->alnlen);
        int final_rows = (m->aligned == ALN_STATUS_FINAL && m->alnlen > 0);
        sb_kint(&b,"rows",final_rows);
        sb_key(&b,"lens"); sb_str(&b,"[");
        for(int i = 0; i < m->numseq; i++){ if(i) sb_str(&b,","); sb_int(&b,m->sequences[i]->len); }
        sb_str(&b,"]");
        sb_key(&b,"ranks"); sb_str(&b,"[");
        for(int i = 0; i < m->numseq; i++){ if(i) sb_str(&b,","); sb_int(&b,m->sequences[i]->rank); }
        sb_str(&b,"]");
        sb_key(&b,"names"); sb_str(&b,"[");
        for(int i = 0; i < m->numseq; i++){
                if(i) sb_str(&b,",");
                sb_chars(&b, m->sequences[i]->name, (int)strnlen(m->sequences[i]->name, 1 << 20));
        }
        sb_str(&b,"]");
        if(full){
                sb_key(&b,"seqs"); sb_str(&b,"[");
                for(int i = 0; i < m->numseq; i++){
                        if(i) sb_str(&b,",");
                        int l = final_rows ? m->alnlen : m->sequences[i]->len;
                        sb_chars(&b, m->sequences[i]->seq, l);
                }
                sb_str(&b,"]");
                sb_key(&b,"gaps"); sb_str(&b,"[");
                for(int i = 0; i < m->numseq; i++){
                        if(i) sb_str(&b,",");
                        sb_ints(&b, m->sequences[i]->gaps, m->sequences[i]->len + 1);
                }
                sb_str(&b,"]");
        }else{
                sb_key(&b,"seqdg"); sb_str(&b,"[");
                for(int i = 0; i < m->numseq; i++){
                        if(i) sb_str(&b,",");
                        int l = final_rows ? m->alnlen : m->sequences[i]->len;
                        sb_int(&b, dg_bytes(1469598103934665603ULL, m->sequences[i]->seq, (size_t)l));
                }
                sb_str(&b,"]");
        }
        emit("Obj",&b);
}

/* reads a file whose lines are comma separated integers; returns arrays */
static int read_int_lines(const char* path, int*** rows, int** lens, int* nrows)
{
        FILE* f = fopen(path,"r");
        if(!f) return -1;
        char* line = NULL; size_t cap = 0; ssize_t r;
        int n = 0, alloc = 16;
        int** R = malloc(sizeof(int*) * (size_t)alloc);
        int* L = malloc(sizeof(int) * (size_t)alloc);
        while((r = getline(&line,&cap,f)) != -1){
                int cnt = 0, acap = 64;
                int* a = malloc(sizeof(int) * (size_t)acap);
                char* p = line;
                while(*p){
                        while(*p && !(isdigit((unsigned char)*p) || *p == '-')) p++;
                        if(!*p) break;
                        long v = strtol(p,&p,10);
                        if(cnt == acap){ acap *= 2; a = realloc(a, sizeof(int) * (size_t)acap); }
                        a[cnt++] = (int)v;
                }
                if(n == alloc){ alloc *= 2; R = realloc(R,sizeof(int*) * (size_t)alloc); L = realloc(L,sizeof(int) * (size_t)alloc); }
                R[n] = a; L[n] = cnt; n++;
        }
        free(line);
        fclose(f);
        *rows = R; *lens = L; *nrows = n;
        return 0;
}

static void call_event(const char* op, const char* rest)
{
        struct sb b; sb_init(&b);
        sb_kstr(&b,"op",op);
        sb_kstr(&b,"args",rest ? rest : "");
        emit("Call",&b);
}

static void ret_event(const char* op, int rc, struct sb* extra)
{
        struct sb b; sb_init(&b);
        sb_kstr(&b,"op",op);
        sb_kint(&b,"rc",rc);
        if(extra && extra->n){ sb_str(&b,","); sb_str(&b,extra->s); }
        if(extra){ free(extra->s); }
        emit("Ret",&b);
}

/* ------------------------------------------------------------------ */
static int cmd_bpm(const char* path, int which)
{
        /* file: alternating lines text / pattern (symbol codes 0..12). which: 0 block, 1 bpm64, 2 bpm256, 3 all */
        int** rows; int* lens; int n;
        if(read_int_lines(path,&rows,&lens,&n)) return -1;
#ifdef HAVE_AVX2
        set_broadcast_mask();
#endif
        for(int k = 0; k + 1 < n; k += 2){
                int tn = lens[k], pn = lens[k+1];
                uint8_t* t = malloc((size_t)tn + 64);
                uint8_t* p = malloc((size_t)pn + 64);
                for(int i = 0; i < tn; i++) t[i] = (uint8_t)rows[k][i];
                for(int i = 0; i < pn; i++) p[i] = (uint8_t)rows[k+1][i];
                struct sb b; sb_init(&b);
                sb_kint(&b,"k",k/2);
                sb_kint(&b,"n",tn);
                sb_kint(&b,"m",pn);
                sb_key(&b,"t"); sb_ints(&b, rows[k], tn);
                sb_key(&b,"p"); sb_ints(&b, rows[k+1], pn);
                sb_kint(&b,"block", bpm_block(t,p,tn,pn));
                if(which >= 1 && pn <= 63 && pn >= 1){ sb_kint(&b,"w64",(int)bpm(t,p,tn,pn)); }
#ifdef HAVE_AVX2
                if(which >= 2 && pn <= 255 && pn >= 1){ sb_kint(&b,"w256",(int)bpm_256(t,p,tn,pn)); }
#endif
                emit("Bpm",&b);
                free(t); free(p);
        }
        for(int k = 0; k < n; k++) free(rows[k]);
        free(rows); free(lens);
        return 0;
}

static void cmd_alphabet(void)
{
        int types[5] = {ALPHA_defPROTEIN, ALPHA_ambigiousPROTEIN, ALPHA_redPROTEIN, ALPHA_redPROTEIN2, ALPHA_defDNA};
        for(int k = 0; k < 5; k++){
                struct alphabet* a = create_alphabet(types[k]);
                struct sb b; sb_init(&b);
                sb_kint(&b,"type",types[k]);
                sb_kint(&b,"null", a ? 0 : 1);
                if(a){
                        int tmp[128];
                        sb_kint(&b,"L",a->L);
                        for(int i = 0; i < 128; i++) tmp[i] = a->to_internal[i];
                        sb_key(&b,"map"); sb_ints(&b,tmp,128);
                        free(a);
                }
                emit("Alphabet",&b);
        }
}

static void cmd_param(int biotype, int type, float gpo, float gpe, float tgpe)
{
        struct aln_param* ap = NULL;
        int rc = aln_param_init(&ap, biotype, 1, type, gpo, gpe, tgpe);
        struct sb b; sb_init(&b);
        sb_kint(&b,"biotype",biotype);
        sb_kint(&b,"type",type);
        sb_kint(&b,"ingpo",lroundf(gpo*10)); sb_kint(&b,"ingpe",lroundf(gpe*10)); sb_kint(&b,"intgpe",lroundf(tgpe*10));
        sb_kint(&b,"rc",rc);
        if(rc == 0 && ap){
                int flat[23*23];
                sb_kint(&b,"gpo",lroundf(ap->gpo*10)); sb_kint(&b,"gpe",lroundf(ap->gpe*10)); sb_kint(&b,"tgpe",lroundf(ap->tgpe*10));
                for(int i = 0; i < 23; i++) for(int j = 0; j < 23; j++) flat[i*23+j] = (int)lroundf(ap->subm[i][j]*10);
                sb_key(&b,"subm"); sb_ints(&b,flat,23*23);
                aln_param_free(ap);
        }
        emit("ParamInit",&b);
}

static int cmd_kalign(const char* path, int threads, int type, float gpo, float gpe, float tgpe, const char* tag)
{
        int** rows; int* lens; int n;
        if(read_int_lines(path,&rows,&lens,&n)) return -1;
        char** seq = malloc(sizeof(char*) * (size_t)(n+1));
        for(int i = 0; i < n; i++){
                seq[i] = malloc((size_t)lens[i] + 1);
                for(int j = 0; j < lens[i]; j++) seq[i][j] = (char)rows[i][j];
                seq[i][lens[i]] = 0;
        }
        {
                struct sb in; sb_init(&in);
                sb_kstr(&in,"tag","in");
                sb_kint(&in,"h",-1);
                sb_kint(&in,"null",0);
                sb_kint(&in,"n",n);
                sb_key(&in,"names"); sb_str(&in,"[");
                for(int i = 0; i < n; i++){ if(i) sb_str(&in,","); sb_str(&in,"[]"); }
                sb_str(&in,"]");
                sb_key(&in,"seqs"); sb_str(&in,"[");
                for(int i = 0; i < n; i++){ if(i) sb_str(&in,","); sb_chars(&in, seq[i], lens[i]); }
                sb_str(&in,"]");
                emit("Obj",&in);
        }
        char** aln = NULL; int alnlen = 0;
        int rc = kalign(seq, lens, n, threads, type, gpo, gpe, tgpe, &aln, &alnlen);
        struct sb b; sb_init(&b);
        sb_kstr(&b,"tag",tag);
        sb_kint(&b,"rc",rc);
        sb_kint(&b,"n",n);
        sb_kint(&b,"alnlen",alnlen);
        if(rc == 0 && aln){
                /* kalign() returns one row per non-empty input sequence (empty ones are dropped); the caller has to know that count */
                int nrows = 0;
                for(int i = 0; i < n; i++){ if(lens[i] > 0) nrows++; }
                sb_key(&b,"rows"); sb_str(&b,"[");
                for(int i = 0; i < nrows; i++){ if(i) sb_str(&b,","); sb_chars(&b, aln[i], (int)strlen(aln[i])); }
                sb_str(&b,"]");
                for(int i = 0; i < nrows; i++) free(aln[i]);
                free(aln);
        }
        emit("Arr",&b);
        for(int i = 0; i < n; i++){ free(seq[i]); free(rows[i]); }
        free(seq); free(rows); free(lens);
        return rc;
}

/* ------------------------------------------------------------------ */
int main(int argc, char** argv)
{
        const char* script = NULL; const char* out = NULL;
        for(int i = 1; i < argc; i++){
                if(!strcmp(argv[i],"-s") && i+1 < argc) script = argv[++i];
                else if(!strcmp(argv[i],"-o") && i+1 < argc) out = argv[++i];
        }
        if(!script || !out){ fprintf(stderr,"usage: kvdrive -s script -o trace\n"); return 2; }
        sink = fopen(out,"w");
        if(!sink){ perror(out); return 2; }
        setvbuf(sink, NULL, _IOFBF, 1 << 20);
        sink_fd = fileno(sink);
        kv_enable(sink, 1);
        signal(SIGSEGV, crash); signal(SIGABRT, crash); signal(SIGBUS, crash); signal(SIGFPE, crash); signal(SIGILL, crash);

        FILE* f = fopen(script,"r");
        if(!f){ perror(script); return 2; }
        char* line = NULL; size_t cap = 0; ssize_t r;
        int quiet = 1;
        while((r = getline(&line,&cap,f)) != -1){
                while(r > 0 && (line[r-1] == '\n' || line[r-1] == '\r')) line[--r] = 0;
                if(!r || line[0] == '#') continue;
                char* copy = strdup(line);
                char* tok[MAXTOK]; int nt = 0;
                for(char* p = strtok(line," \t"); p && nt < MAXTOK; p = strtok(NULL," \t")) tok[nt++] = p;
                if(!nt){ free(copy); continue; }
                const char* op = tok[0];
                if(!strcmp(op,"level")){ kv_level = atoi(tok[1]); }
                else if(!strcmp(op,"hserial")){ kv_hirsch_serial = atoi(tok[1]); }
                else if(!strcmp(op,"perturb")){ kv_set_perturb((unsigned)atoi(tok[1])); }
                else if(!strcmp(op,"quiet")){ quiet = atoi(tok[1]); }
                else if(!strcmp(op,"reset")){ emit("Reset",NULL); }
                else if(!strcmp(op,"group") && nt >= 4){
                        struct sb b; sb_init(&b);
                        sb_kstr(&b,"gid",tok[1]); sb_kstr(&b,"rel",tok[2]); sb_kstr(&b,"prop",tok[3]);
                        emit("Group",&b);
                }
                else if(!strcmp(op,"note")){ struct sb b; sb_init(&b); sb_kstr(&b,"text",copy+5); emit("Note",&b); }
                else if(!strcmp(op,"read")){
                        int h = atoi(tok[1]);
                        call_event(op, copy);
                        int rc = 0;
                        for(int i = 2; i < nt && rc == 0; i++){
                                rc = kalign_read_input(strcmp(tok[i],"-") ? tok[i] : NULL, &H[h], quiet);
                        }
                        struct sb e; sb_init(&e);
                        sb_kint(&e,"h",h);
                        sb_kint(&e,"null", H[h] ? 0 : 1);
                        ret_event(op, rc, &e);
                }
                else if(!strcmp(op,"run")){
                        int h = atoi(tok[1]);
                        call_event(op, copy);
                        if(H[h]) H[h]->quiet = quiet;
                        int rc = kalign_run(H[h], atoi(tok[2]), atoi(tok[3]), (float)atof(tok[4]), (float)atof(tok[5]), (float)atof(tok[6]));
                        struct sb e; sb_init(&e);
                        sb_kint(&e,"h",h);
                        ret_event(op, rc, &e);
                }
                else if(!strcmp(op,"write")){
                        int h = atoi(tok[1]);
                        call_event(op, copy);
                        int rc = kalign_write_msa(H[h], tok[3], tok[2]);
                        struct sb e; sb_init(&e);
                        sb_kint(&e,"h",h);
                        sb_kstr(&e,"fmt",tok[2]);
                        sb_kstr(&e,"file",tok[3]);
                        ret_event(op, rc, &e);
                }
                else if(!strcmp(op,"final")){
                        int h = atoi(tok[1]);
                        call_event(op, copy);
                        int rc = -1;
                        if(H[h] && H[h]->aligned == ALN_STATUS_ALIGNED){ rc = finalise_alignment(H[h]); }
                        struct sb e; sb_init(&e);
                        sb_kint(&e,"h",h);
                        ret_event(op, rc, &e);
                }
                else if(!strcmp(op,"dump")){
                        int h = atoi(tok[1]);
                        obj_event(nt > 2 ? tok[2] : "", h, H[h], nt > 3 ? !strcmp(tok[3],"full") : 1);
                }
                else if(!strcmp(op,"compare")){
                        int a = atoi(tok[1]), b2 = atoi(tok[2]);
                        call_event(op, copy);
                        float score = -1.0f;
                        int rc = kalign_msa_compare(H[a], H[b2], &score);
                        struct sb e; sb_init(&e);
                        sb_kint(&e,"r",a); sb_kint(&e,"t",b2);
                        /* score in 1e-4 units */
                        sb_kint(&e,"score", rc == 0 && isfinite(score) ? lround((double)score * 10000.0) : -1);
                        sb_kint(&e,"finite", isfinite(score) ? 1 : 0);
                        ret_event(op, rc, &e);
                }
                else if(!strcmp(op,"check")){
                        int h = atoi(tok[1]);
                        call_event(op, copy);
                        int rc = kalign_check_msa(H[h], nt > 2 ? atoi(tok[2]) : 0);
                        struct sb e; sb_init(&e);
                        sb_kint(&e,"h",h);
                        ret_event(op, rc, &e);
                }
                else if(!strcmp(op,"free")){
                        int h = atoi(tok[1]);
                        call_event(op, copy);
                        kalign_free_msa(H[h]);
                        H[h] = NULL;
                        struct sb e; sb_init(&e);
                        sb_kint(&e,"h",h);
                        ret_event(op, 0, &e);
                }
                else if(!strcmp(op,"kalign")){
                        call_event(op, copy);
                        int rc = cmd_kalign(tok[1], atoi(tok[2]), atoi(tok[3]), (float)atof(tok[4]), (float)atof(tok[5]), (float)atof(tok[6]), nt > 7 ? tok[7] : "");
                        ret_event(op, rc, NULL);
                }
                else if(!strcmp(op,"param")){
                        cmd_param(atoi(tok[1]), atoi(tok[2]), (float)atof(tok[3]), (float)atof(tok[4]), (float)atof(tok[5]));
                }
                else if(!strcmp(op,"alphabet")){ cmd_alphabet(); }
                else if(!strcmp(op,"bpm")){ cmd_bpm(tok[1], nt > 2 ? atoi(tok[2]) : 3); }
                else if(!strcmp(op,"heap")){
                        struct sb b; sb_init(&b);
                        sb_kstr(&b,"tag", nt > 1 ? tok[1] : "");
                        sb_kint(&b,"bytes", heap_in_use());
                        emit("Heap",&b);
                }
                else {
                        struct sb b; sb_init(&b); sb_kstr(&b,"line",copy); emit("BadCommand",&b);
                }
                free(copy);
                kv_flush();
        }
        free(line);
        fclose(f);
        emit("End",NULL);
        kv_disable();
        fclose(sink);
        return 0;
}
