"""C01 (alignment integrity) and C10 (merging never re-aligns): MC_Weave + WeaveTrace on recorded executions."""
import os, random, json
import kv, gen, tokenize_out


def scenario_script(sc, wd, idx, fmt):
    """one execution: read -> dump -> run -> dump -> write -> free (or the array API)"""
    fa = os.path.join(wd, "in_%d.fa" % idx)
    lines = ["reset", "note %s" % sc["id"]]
    if sc.get("api") == "array":
        arr = os.path.join(wd, "in_%d.arr" % idx)
        with open(arr, "w") as f:
            for s in sc["seqs"]:
                f.write(",".join(str(ord(c)) for c in s) + "\n")
        lines.append("level %d" % sc.get("level", 3))
        lines.append("kalign %s %d %d %g %g %g arr" % (arr, sc["threads"], sc["type"], sc["gpo"], sc["gpe"], sc["tgpe"]))
        return lines
    recs = list(zip(sc["names"], sc["seqs"]))
    files = [fa]
    if sc.get("split") and len(recs) >= 3:
        # the records arrive in two input files (kalign a.fa b.fa): input order = file order
        cut = sc["split"] if 0 < sc["split"] < len(recs) else len(recs) // 2
        fb = os.path.join(wd, "in_%d_b.fa" % idx)
        with open(fa, "w") as f:
            f.write(kv.fasta(recs[:cut]))
        with open(fb, "w") as f:
            f.write(kv.fasta(recs[cut:]))
        files = [fa, fb]
    else:
        with open(fa, "w") as f:
            f.write(kv.fasta(recs, width=sc.get("width", 60)))
    out = os.path.join(wd, "out_%d.%s" % (idx, fmt))
    lines += ["level %d" % sc.get("level", 3),
              "read 0 %s" % " ".join(files),
              "dump 0 in full",
              "run 0 %d %d %g %g %g" % (sc["threads"], sc["type"], sc["gpo"], sc["gpe"], sc["tgpe"]),
              "dump 0 out full",
              "write 0 %s %s" % (fmt, out)]
    if sc.get("allfmt"):
        for f2 in ("fasta", "msf", "clu"):
            if f2 != fmt:
                lines.append("write 0 %s %s" % (f2, os.path.join(wd, "out_%d.%s" % (idx, f2))))
    lines.append("free 0")
    return lines


def add_out_events(trace_path, given=None):
    """after every successful write, append what a format-agnostic tokenizer reads back from the file; after the note that opens
    a scenario, the records the generator wrote into its input file(s): the reference for everything that follows"""
    ev = kv.read_trace(trace_path)
    out = []
    for e in ev:
        out.append(e)
        if given and e.get("e") == "Note" and e.get("text") in given:
            nm, sq = given[e["text"]]
            out.append(dict(e="Given", q=0, t=0, names=[kv.asc(x) for x in nm], seqs=[kv.asc(x) for x in sq]))
        if e.get("e") == "Ret" and e.get("op") == "write" and e.get("rc") == 0:
            names, rows = tokenize_out.tokenize(e["file"], e["fmt"])
            out.append(dict(e="Out", q=0, t=0, fmt=e["fmt"], hasnames=1, names=names, rows=rows))
    kv.write_ndjson(trace_path, out)
    return out


def make_scenarios(rng, tier):
    scs = []
    n_small = 120 if tier == "quick" else 1500
    for i in range(n_small):
        sc = gen.alignment_scenario(rng, nmax=10 if i % 4 else 16, lmax=60 if i % 5 else 160)
        sc["id"] = "g%d" % i
        if i % 7 == 3:
            sc["api"] = "array"
        elif i % 5 == 1:
            sc["split"] = rng.randint(1, max(1, len(sc["seqs"]) - 1))
        if i % 11 == 5 and sc.get("api") != "array":
            # a zero-length record among the input (kalign drops it)
            k = rng.randrange(len(sc["seqs"]))
            if len(sc["seqs"]) > 2:
                sc["seqs"][k] = ""
        scs.append(sc)
    # tiny exhaustive family: all sets of 2..3 sequences over {A,C} up to length 3 (quick: length 2)
    maxl = 2 if tier == "quick" else 3
    words = [""]
    allw = []
    for _ in range(maxl):
        words = [w + c for w in words for c in "AC"]
        allw += words
    k = 0
    for a in allw:
        for b in allw:
            if a <= b:
                scs.append(dict(id="x2_%d" % k, kind="dna", seqs=[a, b], names=["p", "q"], type=0, gpo=-1.0, gpe=-1.0, tgpe=-1.0, threads=1))
                k += 1
    if tier != "quick":
        for a in allw[:6]:
            for b in allw[:6]:
                for c in allw[:6]:
                    scs.append(dict(id="x3_%d" % k, kind="dna", seqs=[a, b, c], names=["p", "q", "r"], type=2, gpo=-1.0, gpe=-1.0, tgpe=-1.0, threads=2))
                    k += 1
    # widths at and around the 60-column block of the writers: substitutions only, so the alignment width is the sequence length
    for L in ([59, 60, 61, 120, 180] if tier == "quick" else [1, 2, 59, 60, 61, 119, 120, 121, 179, 180, 181, 240, 600]):
        for kind in (["dna", "protein"] if tier != "quick" else ["dna" if L % 120 else "protein"]):
            alpha = gen.DNA if kind == "dna" else "DEFHIKLMPQRSVWY"
            seqs = gen.family(rng, 4, L, alpha, sub=0.1, indel=0.0)
            scs.append(dict(id="w%d%s" % (L, kind[0]), kind=kind, seqs=seqs, names=gen.names(rng, 4, "wild"), type=5, gpo=-1.0, gpe=-1.0, tgpe=-1.0,
                            threads=2, allfmt=True))
    # long sequences (200..1500 residues, on both sides of the 500-row switch) in mixed case, with the letters of every class:
    # what comes out must be the input, letter for letter
    for j, L in enumerate([260, 520, 1100] if tier == "quick" else [201, 260, 499, 500, 520, 777, 1100, 1500, 2200]):
        kind = ["dna", "protein", "rna"][j % 3]
        alpha = {"dna": gen.DNA + "N", "protein": gen.AA + "BZX", "rna": gen.RNA}[kind]
        seqs = gen.family(rng, rng.randint(3, 5), L, alpha, sub=0.1, indel=0.02)
        if kind == "protein":
            seqs = [x + "LKEF" for x in seqs]
        seqs = [gen.case_mask(rng, x, rng.choice([0.3, 0.5, 1.0])) for x in seqs]
        scs.append(dict(id="long%d%s" % (L, kind[0]), kind=kind, seqs=seqs, names=gen.names(rng, len(seqs), "wild"), type=5, gpo=-1.0, gpe=-1.0, tgpe=-1.0,
                        threads=rng.choice([1, 4]), allfmt=True))
    # very long record names (1000..5000 characters, made of residue letters): names are not residues
    for j, L in enumerate([1030, 5000] if tier == "quick" else [255, 256, 257, 1022, 1023, 1024, 1030, 2047, 2050, 5000, 70000]):
        kind = ["dna", "protein"][j % 2]
        alpha = gen.DNA if kind == "dna" else gen.AA
        seqs = gen.family(rng, 4, 60, alpha, sub=0.1, indel=0.03)
        if kind == "protein":
            seqs = [x + "LKEF" for x in seqs]
        nm = ["".join(rng.choice("ACGTLKEFWYacgtn_") for _ in range(L)) + "_%d" % i for i in range(4)]
        scs.append(dict(id="lname%d%s" % (L, kind[0]), kind=kind, seqs=seqs, names=nm, type=5, gpo=-1.0, gpe=-1.0, tgpe=-1.0, threads=2, allfmt=(L < 3000)))
    # groups of 64 and more sequences followed merge by merge (full arrays)
    for j, (n, L) in enumerate([(70, 40), (100, 30)] if tier == "quick" else [(66, 60), (70, 40), (100, 50), (130, 40), (200, 25), (64, 80)]):
        kind = ["protein", "dna"][j % 2]
        alpha = gen.AA if kind == "protein" else gen.DNA
        # members with long deletions (long gap runs inside the finished group) ...
        anc = gen.rand_seq(rng, alpha, L)
        seqs = []
        for _ in range(n - 1):
            t = gen.mutate(rng, anc, alpha, 0.08, 0.0)
            if rng.random() < 0.7:
                a = rng.randrange(2, max(3, L - 14))
                t = t[:a] + t[a + rng.randint(6, 12):]
            seqs.append(t)
        # ... and one sequence with many short insertions, which joins last and opens several gap columns inside those runs
        t = anc
        for _ in range(L // 3):
            a = rng.randrange(1, len(t))
            t = t[:a] + gen.rand_seq(rng, alpha, rng.randint(1, 2)) + t[a:]
        seqs.append(t)
        if kind == "protein":
            seqs = [x + "LKEF" for x in seqs]
        scs.append(dict(id="grp%d" % j, kind=kind, seqs=seqs, names=gen.names(rng, n), type=5, gpo=-1.0, gpe=-1.0, tgpe=-1.0, threads=[4, 1][j % 2], level=3, solo=True))
    # gap runs of 256 and more columns: a domain of 255..700 residues present in some members and absent from others of one
    # finished group, and relatives that join later with a short insertion somewhere inside that domain (columns opened in the
    # middle of a long run of an earlier group); also a short read against a long reference (a long terminal run)
    doms = [520, 256, 600, 700, 300, 1030, 255, 560] if tier == "quick" else [255, 256, 257, 300, 511, 512, 520, 600, 700, 1030] * 2
    for j, DL in enumerate(doms):
        kind = ["protein", "dna"][j % 2]
        alpha = gen.AA if kind == "protein" else gen.DNA
        fl = rng.randint(40, 120)
        Pf, Qf, X = gen.rand_seq(rng, alpha, fl), gen.rand_seq(rng, alpha, fl), gen.rand_seq(rng, alpha, DL)
        full = Pf + X + Qf
        seqs = [full, gen.mutate(rng, full, alpha, 0.08, 0.0), Pf + Qf, gen.mutate(rng, Pf + Qf, alpha, 0.08, 0.0)]
        cut = rng.randint(DL // 4, 3 * DL // 4)
        ins = gen.rand_seq(rng, alpha, rng.randint(1, 15))
        dv = rng.choice([0.3, 0.35, 0.4])
        late = gen.mutate(rng, Pf, alpha, dv, 0.0) + gen.mutate(rng, X[:cut], alpha, dv, 0.0) + ins + gen.mutate(rng, X[cut:], alpha, dv, 0.0) + gen.mutate(rng, Qf, alpha, dv, 0.0)
        seqs += [late, gen.mutate(rng, late, alpha, 0.08, 0.0)]
        if j % 4 == 3:
            seqs.append(gen.mutate(rng, X[cut - 20:cut + 20], alpha, 0.05, 0.0))      # a short read from inside the domain
        if kind == "protein":
            seqs = [x + "LKEF" for x in seqs]
        order = list(range(len(seqs)))
        rng.shuffle(order)
        scs.append(dict(id="dom%d_%d" % (DL, j), kind=kind, seqs=[seqs[o] for o in order], names=gen.names(rng, len(seqs)), type=5, gpo=-1.0, gpe=-1.0, tgpe=-1.0,
                        threads=[1, 4][j % 2], level=3, solo=True, allfmt=(j % 2 == 0)))
        if j % 3 == 0:
            scs.append(dict(id="domarr%d_%d" % (DL, j), kind=kind, seqs=[seqs[o] for o in order[:4]], names=gen.names(rng, 4), type=5, gpo=-1.0, gpe=-1.0, tgpe=-1.0,
                            threads=1, api="array"))
    # larger runs: digests only (end-state invariants)
    big = [(40, 150), (110, 60), (130, 40)] if tier == "quick" else [(40, 300), (110, 200), (250, 120), (600, 60), (1500, 30), (12, 1200), (4, 3000)]
    for j, (n, L) in enumerate(big):
        kind = ["dna", "protein", "rna"][j % 3]
        alpha = {"dna": gen.DNA, "rna": gen.RNA, "protein": gen.AA}[kind]
        seqs = gen.family(rng, n, L, alpha, sub=0.1, indel=0.03)
        if kind == "protein":
            seqs = [s + "LKEF" for s in seqs]
        scs.append(dict(id="big%d" % j, kind=kind, seqs=seqs, names=gen.names(rng, n), type=5, gpo=-1.0, gpe=-1.0, tgpe=-1.0,
                        threads=[1, 4, 16][j % 3], level=1))
    return scs


def run(tier, seed, which="C01"):
    V = kv.Verdict("C01", tier, seed)
    V10 = kv.Verdict("C10", tier, seed)
    wd = kv.workdir("c01" if which == "C01" else "c10")      # C01 and C10 may be run side by side
    rng = random.Random(seed)
    # --- M1: the design
    for cfg in (["MC_Weave_q.cfg"] if tier == "quick" else ["MC_Weave_q.cfg", "MC_Weave_t.cfg", "MC_Weave_t3.cfg"]):
        r = kv.tlc_mc("MC_Weave", cfg, wd, timeout=3000)
        for X in (V, V10):
            X.add_tlc(r)
        if not r.ok:
            raise kv.Broken("MC_Weave (%s) violates its own invariants: %s" % (cfg, r.errors[:2]))
    kv.tlc_mc("MC_Weave", "MC_Weave_twin.cfg", wd, expect_violation=True)
    kv.mc_aligner(V, wd, "c01", tier)
    # --- M3: recorded executions
    scs = make_scenarios(rng, tier)
    fmts = ["fasta", "msf", "clu"]
    batches = []
    per = 12
    small = [s for s in scs if s.get("level", 3) == 3 and not s.get("solo")]
    bigs = [s for s in scs if s.get("level", 3) != 3 or s.get("solo")]
    for i in range(0, len(small), per):
        batches.append(small[i:i + per])
    for s in bigs:
        batches.append([s])

    def do_batch(bi):
        b = batches[bi]
        bwd = os.path.join(wd, "b%d" % bi)
        os.makedirs(bwd, exist_ok=True)
        lines = []
        for k, sc in enumerate(b):
            lines += scenario_script(sc, bwd, k, fmts[(bi + k) % 3])
        tp, rc, err = kv.run_kvdrive("\n".join(lines) + "\n", bwd, "t", timeout=(240 if len(b) == 1 else 120))
        add_out_events(tp, {sc["id"]: (sc["names"], sc["seqs"]) for sc in b if sc.get("api") != "array" and "names" in sc})
        try:
            res = kv.run_tlc("WeaveTrace", "WeaveTrace.cfg", bwd, trace=tp, timeout=1200, heap="3g")
            res.pipeline = kv.run_tlc("KalignTrace", "KalignTrace.cfg", bwd, trace=tp, timeout=1200, heap="3g", name="pipe")
        except kv.Broken as e:
            return bi, rc, err, None, str(e)
        return bi, rc, err, res, None

    results = kv.pmap(do_batch, range(len(batches)), workers=12)
    for bi, rc, err, res, broken in results:
        b = batches[bi]
        bwd = os.path.join(wd, "b%d" % bi)
        if broken:
            raise kv.Broken(broken)
        for X in (V, V10):
            X.add_tlc(res)
            X.add_tlc(res.pipeline)
            X.extra["pipeline_events_validated"] = X.extra.get("pipeline_events_validated", 0) + res.pipeline.distinct
        for (ln, sid, items) in res.pipeline.divs:
            V.divergence("pipeline model, scenario %s line %d: %s (batch %d)" % (sid, ln, ",".join(sorted(items)), bi))
        for sc in b:
            key = json.dumps([sc["seqs"], sc["type"], sc["gpo"], sc["gpe"], sc["tgpe"], sc["threads"], sc.get("api", "")])
            nt = len(set(sc["seqs"])) > 1 and max(len(s) for s in sc["seqs"]) > 1
            V.case(key, nt)
            V10.case(key, nt and len(sc["seqs"]) > 2)
        if bi == 0:
            V.sample(dict(scenario=b[0]["id"], seqs=b[0]["seqs"][:4], type=b[0]["type"], threads=b[0]["threads"]))
            V10.sample(dict(scenario=b[0]["id"], seqs=b[0]["seqs"][:4], type=b[0]["type"], threads=b[0]["threads"]))
        bad_sids = set()
        for (ln, sid, items) in res.fails:
            bad_sids.add(sid)
            c10 = sorted(x for x in items if x.startswith("C10"))
            c01 = sorted(x for x in items if not x.startswith("C10"))
            rp = kv.save_replay("C01", "b%d" % bi, [os.path.join(bwd, "t.kv"), os.path.join(bwd, "t.ndjson")])
            if c01:
                V.violation("scenario %s trace line %d: %s" % (sid, ln, ",".join(c01)), rp, dict(kind="trace", what=c01))
            if c10:
                V10.violation("scenario %s trace line %d: %s" % (sid, ln, ",".join(c10)), rp, dict(kind="trace", what=c10))
        for (ln, sid, items) in res.divs:
            V.divergence("scenario %s line %d: %s (batch %d)" % (sid, ln, ",".join(sorted(items)), bi))
        if not res.accepted or rc != 0:
            rp = kv.save_replay("C01", "b%d" % bi, [os.path.join(bwd, "t.kv"), os.path.join(bwd, "t.ndjson")])
            V.violation("execution not explained by the specification (harness rc=%s, trace accepted=%s): %s"
                        % (rc, res.accepted, err[-300:].replace("\n", " ")), rp, dict(kind="unexplained", rc=rc))
        ok_execs = len([sc for sc in b if sc["id"] not in bad_sids]) if res.accepted else 0
        V.traces += ok_execs
        V10.traces += ok_execs
    rule = ("generated sequence families (DNA/RNA/protein; indels, duplicates, extreme length ratios, zero-length records), "
            "exhaustive tiny inputs over {A,C}, large digest-only runs; crossed with types, penalties, threads, entry points and "
            "output formats; non-trivial = at least two distinct sequences and one longer than 1 residue; distinct by input+parameters")
    assume = ["hooks log the state after make_seq under one mutex", "TLC 1.8.0 + CommunityModules", "tokenizer of written files is format-aware only at line level"]
    if which == "C01":
        return V.finish(rule=rule, assumptions=assume)
    return V10.finish(rule=rule + "; for C10 additionally at least 3 sequences (an inner node exists)", assumptions=assume)
