"""C02: same alignment for every thread count and schedule; fork/join order respected.
M1: MC_TaskTree (all schedules of the task model, twins without taskwait must fail).
M3: TaskTreeTrace on every recorded execution (happens-before + data-flow digests).
M5: RelateTrace 'rows' over the outputs of all configurations of one scenario."""
import os, random, json
import kv, gen

MC = ["bal8_2", "cat5_3", "mix6_3", "hirsch_2", "kmeans_2"]
MC_T = ["bal8_3", "hirsch_3"]
TWINS = ["twin_bal8", "twin_hirsch", "twin_km1", "twin_km2"]


def scenarios(rng, tier):
    S = []

    def add(name, kind, n, L, sub=0.1, indel=0.03, dup=0):
        alpha = {"dna": gen.DNA, "rna": gen.RNA, "protein": gen.AA}[kind]
        seqs = gen.family(rng, n - dup, L, alpha, sub=sub, indel=indel)
        if kind == "protein":
            seqs = [s + "LKEF" for s in seqs]
        for _ in range(dup):
            seqs.append(rng.choice(seqs))
        rng.shuffle(seqs)
        S.append(dict(id=name, kind=kind, seqs=seqs, names=gen.names(rng, n), type=5))

    add("km_hirsch", "dna", 130, 620)            # k-means + parallel Hirschberg
    add("hirsch2", "dna", 12, 1150)              # two nested levels of parallel Hirschberg
    add("upgma99", "protein", 99, 60)
    add("km101", "protein", 101, 60)
    add("anchors33", "rna", 33, 90)
    add("ties", "dna", 120, 40, sub=0.0, indel=0.0, dup=60)   # many equal distances
    add("prof500", "protein", 8, 520, indel=0.06)
    add("small", "dna", 6, 30)
    add("eqlen", "dna", 240, 150, sub=0.15, indel=0.0)   # equal lengths, different content: every pairwise distance is computed in both roles
    # two unrelated loose families of 150: both children of the first bisection are k-means nodes themselves (>= 100
    # sequences), so two k-means nodes (and their tries) run as concurrent tasks; loose (star-like) families make the winning
    # split sensitive to the centroids, so any interference between concurrent nodes changes the tree
    two = [x + "LKEF" for x in gen.star(rng, 150, 90, gen.AA) + gen.star(rng, 150, 90, gen.AA)]
    rng.shuffle(two)
    S.append(dict(id="km2fam", kind="protein", seqs=two, names=gen.names(rng, 300), type=5))
    # pairs of tandem-repeat sequences with an overhang, the longer one exactly as long as the DP state arrays grow
    # (256 x 1.5^k = 576, 864, 1296, ...) and the shorter one above the 500-row switch: the forward and the backward pass of
    # one Hirschberg step must not share state at such a boundary
    for L, k in ([(576, 14), (864, 24)] if tier == "quick" else [(575, 14), (576, 14), (577, 14), (864, 24), (1296, 38), (1944, 60)]):
        for r in range(2 if tier == "quick" else 3):
            unit = gen.rand_seq(rng, gen.AA, 30)
            tail = gen.rand_seq(rng, gen.AA, L - 30 * k)
            S.append(dict(id="rep%d_%d" % (L, r), kind="protein", seqs=[unit * (k - 1) + tail, unit * k + tail], names=["a", "b"], type=5))
    if tier != "quick":
        four = gen.star(rng, 120, 60, gen.DNA, 0.3) + gen.star(rng, 120, 60, gen.DNA, 0.3) + gen.star(rng, 120, 70, gen.DNA, 0.3) + gen.star(rng, 120, 50, gen.DNA, 0.3)
        rng.shuffle(four)
        S.append(dict(id="km4fam", kind="dna", seqs=four, names=gen.names(rng, 480), type=5))
        add("km300", "dna", 300, 120)
        add("km1000", "protein", 1000, 40)
        add("hirsch3", "rna", 6, 2300)
        add("cater", "dna", 40, 300, indel=0.1)
        add("ties2", "protein", 210, 30, sub=0.01, indel=0.0, dup=100)
        for i in range(20 if tier == "thorough" else 0):
            n = rng.choice([5, 20, 64, 100, 150])
            add("rnd%d" % i, rng.choice(["dna", "rna", "protein"]), n, rng.choice([30, 200, 510, 700]) if n < 100 else rng.choice([30, 120, 520]))
    return S


def configs(rng, tier):
    C = []
    for th in [1, 2, 3, 4, 8, 16, 32, 64]:
        C.append(dict(build="rel", threads=th, env={"OMP_MAX_ACTIVE_LEVELS": "2" if th in (2, 4, 16) else "1"}))
    C.append(dict(build="rel", threads=4, env={"OMP_MAX_ACTIVE_LEVELS": "4", "OMP_WAIT_POLICY": "passive"}, perturb=7))
    C.append(dict(build="rel", threads=8, env={"OMP_MAX_ACTIVE_LEVELS": "2", "OMP_WAIT_POLICY": "active"}, perturb=13, taskset="0-1"))
    C.append(dict(build="noomp", threads=4, env={}))
    if tier != "quick":
        for k in range(12):
            C.append(dict(build="rel", threads=rng.choice([2, 3, 5, 7, 16, 48]), env={"OMP_MAX_ACTIVE_LEVELS": rng.choice(["1", "2", "3"]),
                                                                                  "OMP_WAIT_POLICY": rng.choice(["active", "passive"])},
                          perturb=rng.randrange(1, 10 ** 6), taskset=rng.choice([None, "0", "0-1", "0-15"])))
        for k in range(4):
            C.append(dict(build="rel", threads=[2, 8, 16, 64][k], env={"OMP_MAX_ACTIVE_LEVELS": "2"}, repeat=k))
    return C


def san_configs(tier):
    # second OpenMP runtime (libomp, clang): compared among themselves
    C = [dict(build="san", threads=th, env={"OMP_MAX_ACTIVE_LEVELS": "2"}) for th in ([1, 4, 16] if tier == "quick" else [1, 2, 4, 8, 16, 32])]
    return C


import threading
_retry_lock = threading.Lock()
_flaky = []


def run(tier, seed, which="C02"):
    V = kv.Verdict("C02", tier, seed)
    wd = kv.workdir("c02")
    rng = random.Random(seed)
    # ---- M1
    mcs = MC + (MC_T if tier != "quick" else [])

    def mc(name):
        return name, kv.run_tlc("MC_TaskTree", "MC_TaskTree_%s.cfg" % name, wd, workers=4, timeout=1800, name=name)
    rb = kv.run_tlc("Bisect", "MC_Bisect.cfg", wd, workers=1, timeout=600, name="bisect")
    V.add_tlc(rb)
    if not rb.ok:
        raise kv.Broken("MC_Bisect fails: %s" % rb.errors[:2])
    if kv.run_tlc("Bisect", "MC_Bisect_twin.cfg", wd, workers=1, timeout=600, name="bisect_twin").ok:
        raise kv.Broken("MC_Bisect twin (one-sided fallback) terminates: the liveness property is vacuous")
    for name, r in kv.pmap(mc, mcs + TWINS, workers=4):
        if name in TWINS:
            if r.ok:
                raise kv.Broken("twin %s (program without taskwait) was not rejected by TLC" % name)
        else:
            V.add_tlc(r)
            if not r.ok:
                raise kv.Broken("MC_TaskTree %s fails: %s" % (name, r.errors[:2]))
    # ---- M3 + M5
    for v in ("rel", "noomp", "san"):
        kv.build(v)
    S = scenarios(rng, tier)
    jobs = []
    for si, sc in enumerate(S):
        swd = os.path.join(wd, sc["id"])
        os.makedirs(swd, exist_ok=True)
        fa = os.path.join(swd, "in.fa")
        open(fa, "w").write(kv.fasta(list(zip(sc["names"], sc["seqs"]))))
        small = len(sc["seqs"]) * max(len(x) for x in sc["seqs"]) < 20000
        cfgs = configs(rng, tier) + (san_configs(tier) if small or tier != "quick" else [])
        for ci, c in enumerate(cfgs):
            jobs.append((si, ci, c, fa, swd))

    def runjob(job):
        si, ci, c, fa, swd = job
        lines = ["level 1", "reset", "note %s_c%d" % (S[si]["id"], ci)]
        if c.get("perturb"):
            lines.append("perturb %d" % c["perturb"])
        lines += ["read 0 %s" % fa, "run 0 %d %d -1 -1 -1" % (c["threads"], S[si]["type"]), "dump 0 out full", "free 0"]
        tp, rc, err = kv.run_kvdrive("\n".join(lines) + "\n", swd, "c%d" % ci, variant=c["build"], env=c["env"], timeout=600, taskset=c.get("taskset"))
        if rc != 0:
            # a failure counts only if it repeats: up to 64 x 64 threads under the sanitizer can exhaust the machine when
            # many configurations run side by side
            with _retry_lock:
                tp, rc2, err2 = kv.run_kvdrive("\n".join(lines) + "\n", swd, "c%d" % ci, variant=c["build"], env=c["env"], timeout=900, taskset=c.get("taskset"))
            if rc2 == 0:
                _flaky.append("%s c%d: first attempt rc=%s, clean when repeated alone" % (S[si]["id"], ci, rc))
            rc, err = rc2, err2
        return job, tp, rc, err

    results = kv.pmap(runjob, jobs, workers=6)
    by_s = {}
    for job, tp, rc, err in results:
        by_s.setdefault(job[0], []).append((job, tp, rc, err))

    def validate(si):
        sc = S[si]
        swd = os.path.join(wd, sc["id"])
        runs = by_s[si]
        # happens-before + data flow on every run
        allev = []
        for job, tp, rc, err in runs:
            allev += kv.read_trace(tp)
        hb = os.path.join(swd, "all.ndjson")
        kv.write_ndjson(hb, [e for e in allev if e.get("e") != "Obj"])
        r1 = kv.run_tlc("TaskTreeTrace", "TaskTreeTrace.cfg", swd, trace=hb, timeout=1800, heap="4g", name="hb")
        # the recursion of the bisecting k-means against Bisect.tla (diagnostic)
        bp = os.path.join(swd, "bisect.ndjson")
        kv.write_ndjson(bp, [e for e in allev if e.get("e") in ("KmNode", "KmKids", "KmDone", "RunEnd")])
        r1.bisect = kv.run_tlc("BisectTrace", "BisectTrace.cfg", swd, trace=bp, timeout=900, heap="3g", name="bisect")
        # output identity per build family
        gev = []
        # the property speaks about thread counts and schedules of one program: builds are compared among themselves
        # (the build without OpenMP has a single configuration: it is run and traced, and compared only as a diagnostic)
        for fam in (("rel",), ("san",)):
            mem = [(job, tp) for job, tp, rc, err in runs if job[2]["build"] in fam]
            if len(mem) < 2:
                continue
            gev.append(dict(e="Group", gid="%s_%s" % (sc["id"], fam[0]), rel="rows", prop="C02"))
            for job, tp in mem:
                objs = [e for e in kv.read_trace(tp) if e.get("e") == "Obj" and e.get("tag") == "out"]
                gev += objs if objs else [dict(e="Obj", tag="out", null=1)]
        gp = os.path.join(swd, "group.ndjson")
        kv.write_ndjson(gp, gev)
        # diagnostic: the build without OpenMP against the OpenMP build with one thread
        one = [tp for job, tp, rc, err in runs if job[2]["build"] == "rel" and job[2]["threads"] == 1]
        ser = [tp for job, tp, rc, err in runs if job[2]["build"] == "noomp"]
        noomp_differs = False
        if one and ser:
            o1 = [e.get("seqs") for e in kv.read_trace(one[0]) if e.get("e") == "Obj" and e.get("tag") == "out"]
            o2 = [e.get("seqs") for e in kv.read_trace(ser[0]) if e.get("e") == "Obj" and e.get("tag") == "out"]
            noomp_differs = o1 != o2
        r2 = kv.run_tlc("RelateTrace", "RelateTrace.cfg", swd, trace=gp, timeout=1800, heap="6g", name="id")
        r1.noomp_differs = noomp_differs
        return si, r1, r2, hb, gp

    for si, r1, r2, hb, gp in kv.pmap(validate, range(len(S)), workers=6):
        sc = S[si]
        if r1.noomp_differs:
            V.divergence("scenario %s: the build without OpenMP gives another alignment than the OpenMP build with one thread" % sc["id"])
        V.add_tlc(r1)
        V.add_tlc(r2)
        V.add_tlc(r1.bisect)
        V.extra["kmeans_splits_checked_against_Bisect"] = V.extra.get("kmeans_splits_checked_against_Bisect", 0) + sum(1 for x in r1.bisect.prints if x.startswith('<<"KVSPLIT"'))
        for (ln, sid, items) in r1.bisect.divs:
            V.divergence("scenario %s, k-means recursion event %d: %s" % (S[si]["id"], ln, ",".join(sorted(items))))
        if not r1.bisect.accepted:
            V.divergence("scenario %s: k-means recursion trace not consumed" % S[si]["id"])
        runs = by_s[si]
        ev_all = kv.read_trace(hb)
        kinds = set(e.get("e") for e in ev_all)
        region = sorted(k for k in ("HMeet", "KmReduce", "MergeBegin") if k in kinds)
        V.case("%s:%s" % (sc["id"], json.dumps(sc["seqs"][:3])), nontrivial=True)
        V.evaluations += len(runs) - 1
        V.extra.setdefault("regions_entered", {})[sc["id"]] = region
        for (ln, sid, items) in r1.fails:
            rp = kv.save_replay("C02", sc["id"], [hb])
            V.violation("run %s trace line %d: %s" % (sid, ln, ",".join(sorted(items))), rp, dict(kind="order", what=sorted(items)))
        for (ln, gid, items) in r2.fails:
            rp = kv.save_replay("C02", sc["id"], [gp])
            V.violation("outputs of scenario %s differ between configurations (member at line %d): %s" % (gid, ln, ",".join(sorted(items))), rp,
                        dict(kind="identity", what=sorted(items)))
        bad = [(job[1], rc, err[-200:]) for job, tp, rc, err in runs if rc != 0]
        for ci, rc, err in bad:
            V.violation("scenario %s configuration %d: harness rc=%s %s" % (sc["id"], ci, rc, err.replace("\n", " ")), os.path.join(wd, sc["id"]), dict(kind="unexplained", rc=rc))
        if not r1.accepted or not r2.accepted:
            V.violation("scenario %s: trace not explained by the specification" % sc["id"], hb, dict(kind="unexplained"))
        if not r1.fails and r1.accepted and not bad:
            V.traces += len(runs)
        if si == 0:
            V.sample(dict(scenario=sc["id"], n=len(sc["seqs"]), L=len(sc["seqs"][0]), configurations=[dict(build=j[2]["build"], threads=j[2]["threads"], env=j[2]["env"]) for j, _, _, _ in runs[:4]]))
    # diagnostic: ThreadSanitizer with Archer (OpenMP-aware happens-before) on every scenario.  A report names a data race,
    # i.e. a reason why SOME schedule may give another result; it is printed and counted, but it is not a verdict (a race
    # between equal values does not change the alignment, and the property is about the alignment).
    archer = "/usr/lib/llvm-14/lib/libarcher.so"
    if os.path.exists(archer):
        try:
            kv.build("tsan")

            def tsan(si):
                fa = os.path.join(wd, S[si]["id"], "in.fa")
                locs = set()
                for th in (4, 16):
                    rc, so, se = kv.run_cli(["-i", fa, "-o", os.path.join(wd, S[si]["id"], "tsan.out"), "-n", str(th)], variant="tsan", timeout=900,
                                            env={"OMP_TOOL_LIBRARIES": archer, "TSAN_OPTIONS": "ignore_noninstrumented_modules=1 exitcode=66"})
                    txt = se.decode("utf-8", "replace")
                    blocks = txt.split("WARNING: ThreadSanitizer: data race")[1:]
                    for b in blocks:
                        m = [x.strip() for x in b.splitlines() if x.strip().startswith("#0 ")]
                        if m:
                            locs.add(" / ".join(sorted(set(y.split(" (kalign")[0].replace("#0 ", "") for y in m[:2]))))
                return si, sorted(locs)
            nrace = 0
            for si, locs in kv.pmap(tsan, range(len(S)), workers=4):
                for loc in locs:
                    nrace += 1
                    V.divergence("scenario %s: ThreadSanitizer (Archer) reports a data race: %s" % (S[si]["id"], loc[:200]))
            V.extra["tsan_archer_scenarios"] = len(S)
            V.extra["tsan_archer_race_locations"] = nrace
        except kv.Broken as e:
            V.extra["tsan_archer_scenarios"] = 0
            print("NOTE: property=C02 the ThreadSanitizer diagnostic could not be built: %s" % str(e)[:200])
    V.extra["failures_not_repeated_when_run_alone"] = list(_flaky)
    for x in _flaky:
        print("NOTE: property=C02 %s" % x)
    return V.finish(rule="scenarios chosen to enter every parallel region (>=33, 99/101, >=100 sequences; >=500 and >=1000 columns; many equal distances) x "
                    "configurations (n_threads 1..64, OMP_MAX_ACTIVE_LEVELS 1..4, wait policy, CPU sets, schedule perturbation at hook points, builds gcc+libgomp, gcc without OpenMP, clang+libomp); "
                    "a scenario counts once; evaluations = runs; non-trivial = the run emitted merge events",
                    assumptions=["schedules of the real runtime are sampled, not enumerated; the task model is explored exhaustively by TLC for 2-3 threads",
                                 "event order = order of one sequence counter taken under the sink mutex",
                                 "clang/libomp outputs are compared among themselves, not with gcc builds"])
