"""C03: the alignment does not depend on the order of the input records (names pairwise distinct).
Groups of executions: identity order + permutations; relation Relate!SameColumns (same residues share a column, rows matched by name)."""
import os, random, itertools, json
import kv, gen, rel


def perms_of(rng, n, k):
    ids = list(range(n))
    out = [ids[:], ids[::-1], ids[1:] + ids[:1]]
    while len(out) < k:
        p = ids[:]
        rng.shuffle(p)
        out.append(p)
    return out[:k]


def run(tier, seed, which="C03"):
    V = kv.Verdict("C03", tier, seed)
    wd = kv.workdir("c03")
    rng = random.Random(seed)
    groups = []

    def add(gid, names, seqs, ty, orders, threads=2, pens=(-1, -1, -1), nontrivial=True):
        members = [dict(names=[names[i] for i in o], seqs=[seqs[i] for i in o], type=ty, threads=threads, gpo=pens[0], gpe=pens[1], tgpe=pens[2], dump_in=True) for o in orders]
        groups.append(dict(gid=gid, rel="columns", prop="C03", members=members, key="%s:%s:%d" % (gid, json.dumps(sorted(zip(names, seqs)))[:2000], ty), nontrivial=nontrivial))

    # all n! orders of tiny inputs (equal lengths so that names decide; prefix names; mixed case)
    tiny = [(["ab", "a", "abc", "b"], ["ACGTAC", "ACTTAC", "AGGTAC", "ACGTCC"], 0),
            (["x1", "x10", "x2"], ["LKEFW", "LKFW", "LKEFW"], 3),
            (["Seq", "seq", "SEQ", "sEq", "seQ"], ["ACGTT", "ACGT", "AGGTT", "ACTT", "ACGTT"], 2)]
    for ti, (nm, sq, ty) in enumerate(tiny[: (2 if tier == "quick" else 3)]):
        orders = [list(p) for p in itertools.permutations(range(len(nm)))]
        add("tiny%d" % ti, nm, sq, ty, orders, threads=1)
    # generated inputs
    n_gen = 24 if tier == "quick" else 400
    for i in range(n_gen):
        sc = gen.alignment_scenario(rng, nmax=14, lmax=100)
        n = len(sc["seqs"])
        style = i % 4
        seqs = sc["seqs"]
        if style == 0:
            # all the same length: only names break ties in the canonical order
            L = min(len(s) for s in seqs)
            seqs = [s[:L] for s in seqs]
        elif style == 1:
            # blocks of equal length
            L = sorted(set(len(s) for s in seqs))[:2]
            seqs = [s[:rng.choice(L)] for s in seqs]
        if sc["kind"] == "protein":
            seqs = [s if sum(c.upper() in "DEFHIKLMPQRSVWY" for c in s) * 4 >= len(s) else s + "LKEF" for s in seqs]
            if style == 0:
                L = min(len(s) for s in seqs)
                seqs = [s[-L:] for s in seqs]
        names = sc["names"]
        k = 4 if tier == "quick" else 10
        orders = perms_of(rng, n, k)
        # presentations the sort might treat specially: already sorted by length (desc) with names descending inside ties, and ascending length
        bylen = sorted(range(n), key=lambda j: (-len(seqs[j]), [-ord(c) for c in names[j]]))
        orders += [bylen, bylen[::-1], sorted(range(n), key=lambda j: names[j])]
        add("gen%d" % i, names, seqs, sc["type"], orders, threads=rng.choice([1, 4]), pens=(sc["gpo"], sc["gpe"], sc["tgpe"]), nontrivial=len(set(seqs)) > 1)
    # names that agree on a long prefix and differ only late (FASTA names are whole header lines; the first 255 bytes decide)
    for i in range(8 if tier == "quick" else 80):
        kind = rng.choice(["dna", "protein"])
        alpha = gen.DNA if kind == "dna" else "DEFHIKLMPQRSVWY"
        n = rng.randint(3, 7)
        L = rng.randint(15, 40)
        seqs = gen.family(rng, n, L, alpha, sub=0.3, indel=0.0)
        seqs = [x[k:] + x[:k] for x, k in zip(seqs, [rng.randint(0, 2) for _ in seqs])]      # equal lengths, but worth gapping
        plen = rng.choice([100, 127, 128, 129, 200, 250])
        prefix = "".join(rng.choice("abcdefgh_") for _ in range(plen))
        names = [prefix + "%c%d" % (rng.choice("xyz"), j) for j in range(n)]
        rng.shuffle(names)
        orders = perms_of(rng, n, 5)
        add("longname%d" % i, names, seqs, 5, orders, threads=rng.choice([1, 3]))
    # around the 100-sequence switch and above
    sizes = [99, 101, 130] if tier == "quick" else [60, 95, 99, 100, 101, 105, 150, 300, 1000]
    for n in sizes:
        kind = rng.choice(["dna", "protein"])
        alpha = gen.DNA if kind == "dna" else gen.AA
        L = 40 if n > 200 else 60
        seqs = gen.family(rng, n, L, alpha, sub=0.15, indel=0.03 if n % 2 else 0.0)
        if kind == "protein":
            seqs = [s + "LKEF" for s in seqs]
        names = gen.names(rng, n, "prefix")
        orders = perms_of(rng, n, 3 if tier == "quick" else 6)
        bylen = sorted(range(n), key=lambda j: (-len(seqs[j]), [-ord(c) for c in names[j]]))
        orders.append(bylen)
        add("n%d" % n, names, seqs, 5, orders, threads=4)
    # records of unlike composition in one input: one record rich in ambiguity codes (a degenerate consensus, a primer) among
    # clean nucleotide records, or a short nucleotide-looking peptide among proteins; every record takes the first place once
    # (whatever kalign decides about the kind of sequence, it must decide it from the set, not from the order)
    for i in range(6 if tier == "quick" else 60):
        n = rng.randint(4, 7)
        if i % 2 == 0:
            L = rng.randint(90, 150)
            seqs = gen.family(rng, n - 1, L, gen.DNA, sub=0.1, indel=0.03)
            amb = set(rng.sample(range(len(seqs[0])), min(len(seqs[0]), rng.choice([8, 22, 35]))))
            odd = "".join(rng.choice("RYKMSWBDHV") if k in amb else c for k, c in enumerate(seqs[0]))
        else:
            seqs = [x + "LKEF" for x in gen.family(rng, n - 1, rng.randint(60, 90), gen.AA, sub=0.15, indel=0.03)]
            odd = gen.rand_seq(rng, "ACGTN", rng.choice([40, 180, 260]))
        seqs.append(odd)
        names = gen.names(rng, n)
        orders = [list(range(n))] + [[k] + [j for j in range(n) if j != k] for k in range(n)] + [list(range(n))[::-1]]
        add("mixed%d" % i, names, seqs, 5, orders, threads=rng.choice([1, 2]))
    # records that still carry gap characters from an earlier alignment (kalign strips them, C04): a few gapped records among
    # ungapped ones of other lengths; every record stands first once and last once, so that whatever the reader concludes about
    # the input being aligned or not cannot hinge on which records it meets first
    for i in range(8 if tier == "quick" else 80):
        kind = rng.choice(["dna", "protein"])
        alpha = gen.DNA if kind == "dna" else "DEFHIKLMPQRSVWY"
        n = rng.randint(3, 6)
        seqs = gen.family(rng, n, rng.randint(20, 70), alpha, sub=0.2, indel=0.08)
        if i % 4 == 3:
            L = min(len(x) for x in seqs)
            seqs = [x[:L] for x in seqs]                      # equal lengths before the gaps are put in
        gapped = rng.sample(range(n), rng.randint(1, max(1, n // 2)))
        for g in gapped:
            x = seqs[g]
            for _ in range(rng.randint(1, 4)):
                a = rng.randrange(0, len(x) + 1)
                x = x[:a] + rng.choice(["-", "--", "-", ".", "---"]) + x[a:]
            seqs[g] = x
        names = gen.names(rng, n)
        orders = [list(range(n))] + [[k] + [j for j in range(n) if j != k] for k in range(n)] + [[j for j in range(n) if j != k] + [k] for k in range(n)]
        add("gappy%d" % i, names, seqs, 5, orders, threads=rng.choice([1, 2]))
    V.sample(dict(group="tiny0", names=tiny[0][0], seqs=tiny[0][1], orders="all 24 permutations"))
    # design level: anchors are a function of the multiset of lengths (MC_Anchor AnchorsOk), a k-means try ends, partitions its
    # samples, keeps their order and is a fixed point (KmeansOk); the twin (ties always left, no fallback) must be rejected
    for cfg in (["MC_Anchor_q.cfg"] if tier == "quick" else ["MC_Anchor_q.cfg", "MC_Anchor_t.cfg", "MC_Anchor_t2.cfg"]):
        r = kv.run_tlc("MC_Anchor", cfg, wd, workers=8, timeout=3400, heap="6g", name=cfg)
        V.add_tlc(r)
        if not r.ok:
            raise kv.Broken("MC_Anchor %s fails: %s" % (cfg, r.out[-500:]))
    if kv.run_tlc("MC_Anchor", "MC_Anchor_twin.cfg", wd, workers=2, timeout=600, heap="2g", name="anchor_twin").ok:
        raise kv.Broken("MC_Anchor twin was not rejected: KmeansOk is vacuous")
    rel.run_groups(V, groups, wd, per_batch=3, timeout=600, pipeline=True)
    # the front end of the guide tree above the 100-sequence switch, step by step (hook level 2, GuideTreeTrace + Anchor):
    # 100..128 short sequences (the whole numseq x 32 anchor matrix is logged), many length ties, two or three orders each
    front = []
    groups_main, groups = groups, front
    for i in range(3 if tier == "quick" else 24):
        n = [100, 128, 113][i % 3] if i < 3 else rng.randint(100, 128)
        kind = rng.choice(["dna", "protein"])
        alpha = gen.DNA if kind == "dna" else gen.AA
        L = rng.randint(9, 18)
        seqs = gen.family(rng, n, L, alpha, sub=rng.choice([0.15, 0.3]), indel=rng.choice([0.0, 0.06, 0.12]))
        if kind == "protein":
            seqs = [s + "LKEF" for s in seqs]
        names = gen.names(rng, n, "prefix")
        orders = perms_of(rng, n, 2)
        orders.append(sorted(range(n), key=lambda j: (-len(seqs[j]), [-ord(c) for c in names[j]])))
        add("front%d" % i, names, seqs, 5, orders, threads=rng.choice([1, 4]))
    groups = groups_main
    rel.run_groups(V, front, os.path.join(wd, "front"), per_batch=1, timeout=600, guidetree=True)
    return V.finish(rule="groups = one named sequence set in several record orders (all n! for tiny inputs with length ties / prefix names / case-only name differences; "
                    "reversal, rotation, random, length-sorted with name-descending ties, name-sorted for generated families incl. all-equal lengths; 99/101/130+ sequences); "
                    "relation = same set of columns as sets of (name, residue index); distinct by sequence set and type",
                    assumptions=["names pairwise distinct and <= 255 bytes (generator guarantees it)"])
