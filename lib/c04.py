"""C04: the result depends only on names and residues, not on how they are presented.
Groups (RelateTrace 'rows'): member 0 = the bare sequences in one FASTA file, other members = re-presentations."""
import os, random, json
import kv, gen, present, rel, tokenize_out


def gapify(rng, seqs, ratio, equal=True, sym="-"):
    """insert gap characters (ratio per residue on average) before residues and at the end; optionally pad to equal length"""
    rows = []
    for s in seqs:
        r = []
        for c in s:
            k = 0
            if ratio >= 1:
                k = rng.randint(0, 2 * ratio)
            elif rng.random() < ratio:
                k = rng.randint(1, 3)
            r.append(sym * k + c)
        r.append(sym * rng.randint(0, 3))
        rows.append("".join(r))
    if equal:
        W = max(len(r) for r in rows)
        rows = [r + sym * (W - len(r)) for r in rows]
    return rows


def presentations(rng, names, seqs, wd, tag, protein, tier, long_lines=False):
    """returns list of (label, [files]) for the same records in the same order"""
    out = []
    k = [0]

    def w(text, ext):
        k[0] += 1
        return present.write(os.path.join(wd, "%s_p%d.%s" % (tag, k[0], ext)), text)

    out.append(("bare", [w(present.to_fasta(names, seqs, width=60), "fa")]))
    out.append(("fasta-w%d" % 7, [w(present.to_fasta(names, seqs, width=rng.choice([1, 7, 13])), "fa")]))
    out.append(("fasta-unwrapped-blank-lines", [w(present.to_fasta(names, seqs, width=0, blank_lines=True, trailing=True), "fa")]))
    rows = gapify(rng, seqs, rng.choice([0.1, 0.5]))
    out.append(("aligned-fasta", [w(present.to_fasta(names, rows, width=rng.choice([60, 200])), "afa")]))
    rows = gapify(rng, seqs, rng.choice([3, 10, 20]))
    out.append(("aligned-fasta-mostly-gaps", [w(present.to_fasta(names, rows, width=80, gapchar=rng.choice(["-", ".", "~"])), "afa")]))
    rows = gapify(rng, seqs, 0.3, equal=False)
    out.append(("gapped-unequal", [w(present.to_fasta(names, rows), "afa")]))
    rows = gapify(rng, seqs, 0.3)
    out.append(("clustal", [w(present.to_clustal(names, rows, width=rng.choice([60, 50, 17]), consensus=True, numbers=rng.random() < 0.5), "aln")]))
    out.append(("clustal-o-header", [w(present.to_clustal(names, rows, width=60, header="CLUSTAL O(1.2.4) multiple sequence alignment"), "aln")]))
    out.append(("msf", [w(present.to_msf(names, rows, width=rng.choice([60, 50]), protein=protein, gapchar=rng.choice([".", "~", "-"]), groups_of_ten=rng.random() < 0.5), "msf")]))
    # blank lines as padding: in front of the first record / header (FASTA, MSF), at the end, and several between blocks
    kb = rng.choice([1, 2, 4])
    out.append(("fasta-leading-blank-%d" % kb, [w("\n" * kb + present.to_fasta(names, seqs, width=60), "fa")]))
    kb = rng.choice([5, 6, 9, 30])
    out.append(("fasta-leading-blank-%d" % kb, [w("\n" * kb + present.to_fasta(names, seqs, width=60) + "\n" * rng.choice([1, 5, 12]), "fa")]))
    out.append(("msf-leading-blank-%d" % kb, [w("\n" * kb + present.to_msf(names, rows, width=60, protein=protein) + "\n\n\n", "msf")]))
    out.append(("clustal-more-blank-lines", [w(present.to_clustal(names, rows, width=rng.choice([60, 23])).replace("\n\n", "\n\n\n\n") + "\n\n", "aln")]))
    if long_lines:
        out.append(("clustal-unwrapped", [w(present.to_clustal(names, rows, width=0), "aln")]))
        out.append(("msf-unwrapped", [w(present.to_msf(names, rows, width=0, protein=protein), "msf")]))
    n = len(names)
    if n >= 2:
        # records split over files: 1 + rest, rest + 1, even split, one record per file
        splits = [[1, n - 1], [n - 1, 1]] + ([[n // 2, n - n // 2]] if n >= 4 else []) + ([[1] * n] if n <= 6 else [])
        for sp in splits:
            files, pos = [], 0
            for j, cnt in enumerate(sp):
                if cnt == 0:
                    continue
                part_n, part_s = names[pos:pos + cnt], seqs[pos:pos + cnt]
                pos += cnt
                if j % 2 and cnt >= 2:
                    files.append(w(present.to_clustal(part_n, gapify(rng, part_s, 0.2)), "aln"))
                else:
                    files.append(w(present.to_fasta(part_n, part_s, width=rng.choice([60, 30])), "fa"))
            out.append(("split-" + "+".join(map(str, sp)), files))
    return out


def run(tier, seed, which="C04"):
    V = kv.Verdict("C04", tier, seed)
    wd = kv.workdir("c04")
    rng = random.Random(seed)
    groups = []
    n_sets = 10 if tier == "quick" else 150
    for i in range(n_sets):
        sc = gen.alignment_scenario(rng, nmax=8, lmax=90)
        sc["seqs"] = [s for s in sc["seqs"] if s]
        names = gen.names(rng, len(sc["seqs"]), "prefix" if i % 2 else "plain")
        swd = os.path.join(wd, "s%d" % i)
        os.makedirs(swd, exist_ok=True)
        pres = presentations(rng, names, sc["seqs"], swd, "s%d" % i, sc["kind"] == "protein", tier)
        members = [dict(files=f, type=sc["type"], threads=2, gpo=sc["gpo"], gpe=sc["gpe"], tgpe=sc["tgpe"], label=lab) for lab, f in pres]
        groups.append(dict(gid="set%d" % i, rel="rows", prop="C04", members=members, key=json.dumps([sc["seqs"], sc["type"]]),
                           nontrivial=len(set(sc["seqs"])) > 1, labels=[lab for lab, f in pres]))
    # very wide alignments: physical lines of more than 8k characters in every format
    for i in range(1 if tier == "quick" else 4):
        kind = ["dna", "protein"][i % 2]
        alpha = gen.DNA if kind == "dna" else gen.AA
        seqs = gen.family(rng, 3, 8300 + 150 * i, alpha, sub=0.05, indel=0.002)
        names = ["wide_a", "wide_bb", "wide_c"]
        swd = os.path.join(wd, "wide%d" % i)
        os.makedirs(swd, exist_ok=True)
        pres = presentations(rng, names, seqs, swd, "w%d" % i, kind == "protein", tier, long_lines=True)
        pres = [p for p in pres if not p[0].startswith("aligned-fasta-mostly") and not p[0].startswith("split")] + [p for p in pres if p[0].startswith("split")][:1]
        members = [dict(files=f, type=5, threads=4, label=lab) for lab, f in pres]
        groups.append(dict(gid="wide%d" % i, rel="rows", prop="C04", members=members, key="wide%d:%s" % (i, seqs[0][:50]), labels=[lab for lab, f in pres]))
    # growth boundaries of the reader: 511/512/513 records and residues
    if tier != "quick":
        for n in (511, 512, 513, 1025):
            seqs = gen.family(rng, n, 24, gen.DNA, sub=0.1, indel=0.02)
            names = gen.names(rng, n)
            swd = os.path.join(wd, "n%d" % n)
            os.makedirs(swd, exist_ok=True)
            pres = presentations(rng, names, seqs, swd, "n%d" % n, False, tier)
            pres = [p for p in pres if p[0] in ("bare", "clustal", "msf", "aligned-fasta") or p[0].startswith("split-1+")]
            groups.append(dict(gid="n%d" % n, rel="rows", prop="C04", members=[dict(files=f, type=5, threads=4, label=lab) for lab, f in pres], key="n%d" % n, labels=[lab for lab, f in pres]))
        for L in (511, 512, 513, 1024, 1025):
            seqs = gen.family(rng, 3, L, gen.AA, sub=0.1, indel=0.0)
            seqs = [s[:L] for s in seqs]
            names = ["p", "q", "r"]
            swd = os.path.join(wd, "L%d" % L)
            os.makedirs(swd, exist_ok=True)
            pres = presentations(rng, names, seqs, swd, "L%d" % L, True, tier)
            groups.append(dict(gid="L%d" % L, rel="rows", prop="C04", members=[dict(files=f, type=5, threads=2, label=lab) for lab, f in pres], key="L%d" % L, labels=[lab for lab, f in pres]))
    V.sample(dict(group="set0", presentations=groups[0]["labels"]))
    rel.run_groups(V, groups, wd, per_batch=2, timeout=900)
    # ---- every presentation file on its own against the line-level reader model (Reader.tla): names, residues, gap vectors
    allfiles = []
    for g in groups:
        for m in g["members"]:
            for f in m["files"]:
                if os.path.getsize(f) < 400000:
                    allfiles.append(f)
    rchunks = [allfiles[i:i + 60] for i in range(0, len(allfiles), 60)]

    def rdo(ci):
        cwd2 = os.path.join(wd, "reader%d" % ci)
        os.makedirs(cwd2, exist_ok=True)
        lines = ["level 0"]
        for k, f in enumerate(rchunks[ci]):
            lines += ["note F%d" % k, "read 0 %s" % f, "dump 0 in full", "free 0"]
        tp, rc, err = kv.run_kvdrive("\n".join(lines) + "\n", cwd2, "t", timeout=300)
        out = []
        for e in kv.read_trace(tp):
            out.append(e)
            if e.get("e") == "Note" and e["text"].startswith("F"):
                data = open(rchunks[ci][int(e["text"][1:])], "rb").read().split(b"\n")
                if data and data[-1] == b"":
                    data = data[:-1]
                out.append(dict(e="File", id=e["text"], lines=[list(x) for x in data]))
        kv.write_ndjson(tp, out)
        return ci, kv.run_tlc("ReaderTrace", "ReaderTrace.cfg", cwd2, trace=tp, timeout=1800, heap="4g")
    for ci, rres in kv.pmap(rdo, range(len(rchunks)), workers=10):
        V.add_tlc(rres)
        V.extra["files_matched_against_reader_model"] = V.extra.get("files_matched_against_reader_model", 0) + len(rchunks[ci])
        for (ln, fid, items) in rres.divs:
            V.divergence("reader model vs kalign_read_input on %s: %s" % (rchunks[ci][int(fid[1:])], ",".join(sorted(items))))
    # ---- the command line: stdin + files (stdin is read first)
    cli_groups = []
    for i in range(3 if tier == "quick" else 25):
        sc = gen.alignment_scenario(rng, nmax=7, lmax=60)
        sc["seqs"] = [s for s in sc["seqs"] if s]
        n = len(sc["seqs"])
        names = gen.names(rng, n)
        cwd = os.path.join(wd, "cli%d" % i)
        os.makedirs(cwd, exist_ok=True)
        bare = present.write(os.path.join(cwd, "bare.fa"), present.to_fasta(names, sc["seqs"]))
        cut = rng.randint(1, n - 1) if n > 2 else 1
        first = present.to_fasta(names[:cut], sc["seqs"][:cut])
        rest = present.write(os.path.join(cwd, "rest.fa"), present.to_fasta(names[cut:], gapify(rng, sc["seqs"][cut:], 0.2)))
        runs = [("bare -i", ["-i", bare], None), ("positional", [bare], None), ("stdin only", [], present.to_fasta(names, sc["seqs"]).encode()),
                ("stdin + file", [rest], first.encode())]
        evs = [dict(e="Group", gid="cli%d" % i, rel="rows", prop="C04")]
        for lab, args, stdin in runs:
            outp = os.path.join(cwd, "out_%s.fa" % lab.replace(" ", "_").replace("+", "p"))
            rc, so, se = kv.run_cli(args + ["-o", outp, "--format", "fasta", "-n", "2"], stdin_bytes=stdin, timeout=60)
            if rc == 0 and os.path.exists(outp):
                nm, rows = tokenize_out.tok_fasta(outp)
                evs.append(dict(e="Obj", tag="out", null=0, status=4, final=1, rows=1, names=nm, seqs=rows))
            else:
                evs.append(dict(e="Obj", tag="out", null=1))
        cli_groups.append((i, evs, json.dumps(sc["seqs"])))
    allev = []
    for i, evs, key in cli_groups:
        allev += evs
    tp = os.path.join(wd, "cli_all.ndjson")
    kv.write_ndjson(tp, allev)
    res = kv.run_tlc("RelateTrace", "RelateTrace.cfg", wd, trace=tp, timeout=900)
    V.add_tlc(res)
    for i, evs, key in cli_groups:
        V.case("cli:" + key, True)
    for (ln, gid, items) in res.fails:
        V.violation("command line group %s member at line %d: %s" % (gid, ln, ",".join(sorted(items))), kv.save_replay("C04", "cli", [tp]), dict(what=sorted(items), kind="cli", member=(ln - 1) % 5))
    if res.accepted:
        V.traces += 4 * len(cli_groups)
    return V.finish(rule="groups = one set of named sequences presented as: bare FASTA (reference), FASTA at other widths / unwrapped with blank lines and trailing blanks, aligned FASTA with random gap insertions "
                    "(incl. up to 20 gap characters per residue, gap symbols - . ~, unequal row lengths), Clustal (W and O headers, consensus lines, position numbers, narrow blocks), MSF (. ~ gaps, groups of ten), "
                    "records split over 2..n files in mixed formats, alignments wider than 8192 columns unwrapped, and through the command line (-i, positional, stdin, stdin + file); relation: identical names and rows",
                    assumptions=["names are whitespace-free tokens; record order is kept by every presentation"])
