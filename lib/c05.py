"""C05: no memory error, crash or hang on any input; failures are reported as failures.
Spec-decided parts: (a) alphabet totality (AlphabetTrace on the real tables), (b) outcome protocol of the library on TLC-generated
files (FileGen -> ProtoTrace), (c) outcome protocol of the command line over the TLC-enumerated option lattice (Cli -> CliTrace).
The memory clauses are observed on the same executions by ASan/UBSan/LSan (san build): a report or a crash is an event no
spec action explains."""
import os, random, json, re, subprocess
import kv, gen, present, tokenize_out

SAN_PAT = re.compile(r"(ERROR: AddressSanitizer|runtime error:|ERROR: LeakSanitizer|AddressSanitizer: [A-Za-z-]+ on|SUMMARY: (Address|UndefinedBehavior)Sanitizer)")


def tlc_files(wd, cfg):
    r = kv.run_tlc("MC_FileGen", cfg, wd, workers=1, timeout=900, heap="6g", name=cfg)
    files = []
    for line in r.prints:
        if line.startswith('"{'):
            files.append(json.loads(json.loads(line)))
    return r, files


def table_check(V, wd):
    tp, rc, err = kv.run_kvdrive("alphabet\n", wd, "alphabet", timeout=60)
    res = kv.run_tlc("AlphabetTrace", "AlphabetTrace.cfg", wd, trace=tp)
    V.add_tlc(res)
    for (ln, sid, items) in res.fails:
        mine = sorted(x for x in items if x.startswith("C05"))
        if mine:
            V.violation("alphabet table %d: %s" % (ln, ",".join(mine)), kv.save_replay("C05", "alphabet", [tp]), dict(what=mine, kind="table"))
    V.traces += 1
    V.evaluations += 5 * 128


def file_script(path, k, outdir):
    return ["note F%d" % k, "read 0 %s" % path, "dump 0 in full", "run 0 2 5 -1 -1 -1", "dump 0 out full",
            "write 0 fasta %s" % os.path.join(outdir, "o%d.fa" % k), "free 0", "note done%d" % k]


def run_files(V, wd, files, tag, variant="san"):
    """files: list of dict(kinds, bytes). Batches; a failing batch is re-run file by file."""
    fdir = os.path.join(wd, tag)
    os.makedirs(fdir, exist_ok=True)
    paths = []
    for k, f in enumerate(files):
        p = os.path.join(fdir, "f%d.in" % k)
        with open(p, "wb") as fh:
            fh.write(f["bytes"])
        paths.append(p)
    per = 40
    batches = [list(range(i, min(len(files), i + per))) for i in range(0, len(files), per)]

    def run_batch(ids, name):
        lines = ["level 0"]
        for k in ids:
            lines += file_script(paths[k], k, fdir)
        tp, rc, err = kv.run_kvdrive("\n".join(lines) + "\n", fdir, name, variant=variant, leaks=True, timeout=60 + 2 * len(ids), hang_is_verdict=True)
        return tp, rc, err

    def do(bi):
        ids = batches[bi]
        tp, rc, err = run_batch(ids, "b%d" % bi)
        bad = rc != 0 or SAN_PAT.search(err)
        singles = []
        if bad:
            for k in ids:
                tp1, rc1, err1 = run_batch([k], "s%d" % k)
                if rc1 == 124:   # a hang counts only if it repeats with 4x the time on an idle core
                    tp1, rc1, err1 = kv.run_kvdrive(open(os.path.join(fdir, "s%d.kv" % k)).read(), fdir, "s%d" % k, variant=variant, leaks=True, timeout=90, hang_is_verdict="retry")
                singles.append((k, tp1, rc1, err1))
        return bi, tp, rc, err, singles

    results = kv.pmap(do, range(len(batches)), workers=14)
    traces = []
    for bi, tp, rc, err, singles in results:
        if singles:
            for k, tp1, rc1, err1 in singles:
                traces.append(tp1)
                f = files[k]
                V.case("%s:%s" % (tag, f["bytes"][:200]), True)
                m = SAN_PAT.search(err1)
                leak_only = "LeakSanitizer" in err1 and "ERROR: AddressSanitizer" not in err1 and "runtime error" not in err1
                if leak_only:
                    rcs = [e.get("rc") for e in kv.read_trace(tp1) if e.get("e") == "Ret" and e.get("op") in ("read", "run", "write")]
                    if any(x != 0 for x in rcs) or len(rcs) < 3:
                        # a leak on an error path: the property speaks of the success path only
                        V.extra["error_path_leaks_ignored"] = V.extra.get("error_path_leaks_ignored", 0) + 1
                        continue
                if rc1 != 0 or m:
                    what = "timeout" if rc1 == 124 else ("sanitizer report" if m else "crash/exit %d" % rc1)
                    first = ""
                    for line in err1.splitlines():
                        if "runtime error" in line or "ERROR: " in line or "SUMMARY" in line:
                            first = line.strip()[:220]
                            break
                    where = ""
                    mm = re.search(r"(msa_io|msa_op|msa_alloc|msa_check|msa_cmp|alphabet|bpm|aln_\w+|bisectingKmeans|sequence_distance|weave_alignment|tlmisc|run_kalign)\.c:(\d+)", err1)
                    if mm:
                        where = "%s.c:%s" % (mm.group(1), mm.group(2))
                    kind = "leak" if "LeakSanitizer" in err1 and "AddressSanitizer: heap" not in err1 and "runtime error" not in err1 else ("ub" if "runtime error" in err1 else "memory")
                    rp = kv.save_replay("C05", "%s_f%d" % (tag, k), [paths[k], os.path.join(fdir, "s%d.kv" % k)])
                    V.violation("file of line kinds %s: %s %s" % (f.get("kinds"), what, first), rp,
                                dict(kind=kind, where=where, has_high_bytes=any(b >= 128 for b in f["bytes"]), kinds=f.get("kinds", []), what=what))
        else:
            traces.append(tp)
            for k in batches[bi]:
                V.case("%s:%s" % (tag, files[k]["bytes"][:200]), True)
    # protocol by TLC: concatenate traces in chunks
    chunks = [traces[i:i + 12] for i in range(0, len(traces), 12)]

    def tlc(ci):
        ev = []
        for tp in chunks[ci]:
            for e in kv.read_trace(tp):
                ev.append(e)
                if e.get("e") == "Note" and e.get("text", "").startswith("F") and e["text"][1:].isdigit() and "lines" in files[int(e["text"][1:])]:
                    # the generator's file, for the line-level reader model
                    ev.append(dict(e="File", id=e["text"], lines=files[int(e["text"][1:])]["lines"]))
        cp = os.path.join(fdir, "proto_%d.ndjson" % ci)
        kv.write_ndjson(cp, ev)
        res = kv.run_tlc("ProtoTrace", "ProtoTrace.cfg", fdir, trace=cp, timeout=1800, heap="3g", name="proto%d" % ci)
        res.reader = kv.run_tlc("ReaderTrace", "ReaderTrace.cfg", fdir, trace=cp, timeout=1800, heap="3g", name="reader%d" % ci)
        return ci, cp, res

    for ci, cp, res in kv.pmap(tlc, range(len(chunks)), workers=10):
        V.add_tlc(res)
        V.add_tlc(res.reader)
        V.extra["files_matched_against_reader_model"] = V.extra.get("files_matched_against_reader_model", 0) + sum(1 for l in open(cp) if '"e":"File"' in l)
        for (ln, fid, items) in res.reader.divs:
            k = int(fid[1:]) if fid[1:].isdigit() else -1
            V.divergence("reader model vs kalign_read_input, file of line kinds %s: %s" % (files[k].get("kinds") if k >= 0 else "?", ",".join(sorted(items))))
        for (ln, fid, items) in res.fails:
            k = int(fid[1:]) if fid[1:].isdigit() else -1
            f = files[k] if 0 <= k < len(files) else {}
            rp = kv.save_replay("C05", "%s_f%d" % (tag, k), [paths[k]] if k >= 0 else [cp])
            V.violation("file of line kinds %s: %s" % (f.get("kinds"), ",".join(sorted(items))), rp, dict(kind="protocol", what=sorted(items), kinds=f.get("kinds", [])))
        if res.accepted:
            V.traces += sum(1 for tp in chunks[ci])


def concretise(f):
    return b"".join(bytes(l) + b"\n" for l in f["lines"])


def cli_part(V, wd, rng, tier):
    r = kv.run_tlc("MC_Cli", "MC_Cli.cfg", wd, workers=1, timeout=600, heap="4g")
    V.add_tlc(r)
    vecs = [json.loads(json.loads(l)) for l in r.prints if l.startswith('"{')]
    if not vecs:
        raise kv.Broken("Cli lattice empty")
    n = 260 if tier == "quick" else 4000
    rng.shuffle(vecs)
    # always include the all-good vectors
    good = [v for v in vecs if v["type"] == "none" and v["format"] in ("none", "msf", "clu") and v["threads"] in ("none", "4") and v["input"].startswith("good") and v["output"] != "unwritable"]
    vecs = good[:20] + vecs[:n]
    cwd = os.path.join(wd, "cli")
    os.makedirs(cwd, exist_ok=True)
    dna = gen.family(rng, 5, 40, gen.DNA, sub=0.1, indel=0.05)
    prot = [s + "LKEF" for s in gen.family(rng, 5, 40, gen.AA, sub=0.2, indel=0.05)]
    inputs = {"gooddna": [("d%d" % i, s) for i, s in enumerate(dna)], "goodprot": [("p%d" % i, s) for i, s in enumerate(prot)], "onerecord": [("only", dna[0])]}
    paths = {}
    for k, recs in inputs.items():
        paths[k] = present.write(os.path.join(cwd, k + ".fa"), kv.fasta(recs))
    paths["empty"] = present.write(os.path.join(cwd, "empty.fa"), "")
    paths["garbage"] = present.write(os.path.join(cwd, "garbage.txt"), "this is not\na sequence file 12345\n")
    paths["missing"] = os.path.join(cwd, "does_not_exist.fa")

    def one(i):
        v = vecs[i]
        args = ["-i", paths[v["input"]]]
        outp = None
        if v["output"] == "file":
            outp = os.path.join(cwd, "out%d" % i)
            args += ["-o", outp]
        elif v["output"] == "unwritable":
            args += ["-o", os.path.join(cwd, "no_such_dir", "out%d" % i)]
        if v["type"] != "none":
            args += ["--type", v["type"]]
        if v["format"] != "none":
            args += ["--format", v["format"]]
        if v["threads"] != "none":
            args += ["-n", v["threads"]]
        if v["gpo"] != "none":
            args += ["--gpo", v["gpo"]]
        rc, so, se = kv.run_cli(args, variant="san", leaks=True, timeout=60)
        if rc == 124:
            rc, so, se = kv.run_cli(args, variant="san", leaks=True, timeout=240)
        fmt = v["format"] if v["format"] in ("msf", "clu") else "fasta"
        names, rows, hasout = [], [], 0
        data = None
        if outp and os.path.exists(outp):
            data = outp
        elif v["output"] == "stdout" and rc == 0:
            # the alignment follows the banner on stdout: write it to a file for the tokenizer
            data = os.path.join(cwd, "stdout%d" % i)
            txt = so
            if fmt == "fasta":
                j = txt.find(b"\n>")
                txt = txt[j + 1:] if j >= 0 else (txt if txt.startswith(b">") else b"")
            elif fmt == "msf":
                j = txt.find(b"!!")
                txt = txt[j:] if j >= 0 else b""
            else:
                j = txt.find(b"Kalign (")
                j2 = txt.rfind(b"multiple sequence alignment")
                txt = txt[txt.rfind(b"\n", 0, j2) + 1:] if j2 >= 0 else b""
            open(data, "wb").write(txt)
        if data:
            try:
                names, rows = tokenize_out.tokenize(data, fmt)
                hasout = 1 if rows else 0
            except Exception:
                hasout = 0
        recs = inputs.get(v["input"], [])
        msg = 1 if (b"ERROR" in se or b"ERROR" in so or b"rror" in se or b"not recognized" in se + so or b"Usage" in so) else 0
        san = SAN_PAT.search(se.decode("utf-8", "replace"))
        return i, dict(e="CliRun", id="v%d" % i, vec=v, exit=rc if rc in (0, 1) or rc > 1 else rc, msg=msg, hasout=hasout, outnames=names, outrows=rows,
                       innames=[kv.asc(a) for a, b in recs], inseqs=[kv.asc(b) for a, b in recs]), rc, se.decode("utf-8", "replace")[-1500:], bool(san), args

    evs = []
    for i, ev, rc, se, san, args in kv.pmap(one, range(len(vecs)), workers=14):
        evs.append(ev)
        V.case("cli:" + json.dumps(vecs[i], sort_keys=True), True)
        if san or rc in (99, 98, 124) or rc < 0 or rc > 120:
            first = [x for x in se.splitlines() if "ERROR: " in x or "runtime error" in x or "SUMMARY" in x]
            kind = "leak" if "LeakSanitizer" in se and "runtime error" not in se else "memory"
            mm = re.search(r"(msa_io|msa_op|msa_alloc|msa_check|alphabet|bpm|aln_\w+|run_kalign|parameters|tlmisc)\.c:(\d+)", se)
            V.violation("kalign %s: %s %s" % (" ".join(args), "timeout" if rc == 124 else "sanitizer/crash exit %d" % rc, first[0][:200] if first else ""),
                        kv.save_replay("C05", "cli_v%d" % i, []), dict(kind=kind, where="%s.c:%s" % (mm.group(1), mm.group(2)) if mm else "", cli=True, vec=vecs[i]))
    tp = os.path.join(cwd, "cli.ndjson")
    kv.write_ndjson(tp, evs)
    res = kv.run_tlc("CliTrace", "CliTrace.cfg", cwd, trace=tp, timeout=1800, heap="4g")
    V.add_tlc(res)
    byid = {e["id"]: e for e in evs}
    for (ln, vid, items) in res.fails:
        e = byid.get(vid, {})
        V.violation("command line %s: %s (exit %s)" % (json.dumps(e.get("vec")), ",".join(sorted(items)), e.get("exit")), kv.save_replay("C05", "cli", [tp]),
                    dict(kind="cli-protocol", what=sorted(items), vec=e.get("vec"), input=e.get("vec", {}).get("input"), output=e.get("vec", {}).get("output")))
    if res.accepted:
        V.traces += len(evs)


def valgrind_part(V, wd, rng, tier):
    vdir = os.path.join(wd, "valgrind")
    os.makedirs(vdir, exist_ok=True)
    kv.build("rel")
    S = []

    def fa(name, recs):
        p = os.path.join(vdir, name + ".fa")
        open(p, "w").write(kv.fasta(recs))
        return p

    def arr(name, seqs):
        p = os.path.join(vdir, name + ".arr")
        open(p, "w").write("".join(",".join(str(ord(c)) for c in s) + "\n" for s in seqs))
        return p
    long3 = gen.family(rng, 3, 510 if tier == "quick" else 620, gen.DNA, sub=0.1, indel=0.01)
    S.append(("hirsch500", ["read 0 %s" % fa("h500", [("s%d" % i, s) for i, s in enumerate(long3)]), "run 0 2 5 -1 -1 -1", "write 0 msf %s" % os.path.join(vdir, "h.msf"), "free 0"]))
    eq = gen.family(rng, 6, 24, gen.DNA, sub=0.2, indel=0.0)
    S.append(("array_equal_lengths", ["kalign %s 2 5 -1 -1 -1 x" % arr("eq", eq), "kalign %s 1 0 5 2 1 y" % arr("eq2", eq[::-1])]))
    odd = ["ACGTXACGTJACGT", "ACGTOACGTZACG", "ACGUBACGTXXCGT"]
    S.append(("letters_outside_alphabet", ["read 0 %s" % fa("odd", [("o%d" % i, s) for i, s in enumerate(odd)]), "run 0 1 5 -1 -1 -1", "write 0 clu %s" % os.path.join(vdir, "o.clu"), "free 0"]))
    if tier != "quick":
        prot = [s + "LKEF" for s in gen.family(rng, 104, 30, gen.AA, sub=0.2, indel=0.03)]
        S.append(("kmeans104", ["read 0 %s" % fa("km", [("p%d" % i, s) for i, s in enumerate(prot)]), "run 0 4 5 -1 -1 -1", "write 0 fasta %s" % os.path.join(vdir, "k.fa"), "free 0"]))
        for j in range(12):
            sc = gen.alignment_scenario(rng, nmax=8, lmax=80)
            sc["seqs"] = [s for s in sc["seqs"] if s] or ["ACGT", "ACG"]
            S.append(("gen%d" % j, ["read 0 %s" % fa("g%d" % j, list(zip(gen.names(rng, len(sc["seqs"])), sc["seqs"]))), "run 0 %d %d %g %g %g" % (sc["threads"], sc["type"], sc["gpo"], sc["gpe"], sc["tgpe"]),
                                    "write 0 %s %s" % (["fasta", "msf", "clu"][j % 3], os.path.join(vdir, "g%d.out" % j)), "free 0"]))
            S.append(("genarr%d" % j, ["kalign %s %d %d -1 -1 -1 z" % (arr("ga%d" % j, sc["seqs"]), sc["threads"], sc["type"])]))

    def one(i):
        name, lines = S[i]
        sp = os.path.join(vdir, name + ".kv")
        open(sp, "w").write("level 0\n" + "\n".join(lines) + "\n")
        e = dict(os.environ)
        e["OMP_NUM_THREADS"] = "2"
        try:
            p = subprocess.run(["valgrind", "--error-exitcode=9", "--track-origins=yes", "-q", os.path.join(kv.build("rel"), "kvdrive"), "-s", sp, "-o", os.path.join(vdir, name + ".ndjson")],
                               stdin=subprocess.DEVNULL, stdout=subprocess.PIPE, stderr=subprocess.PIPE, timeout=900, env=e)
            return i, p.returncode, p.stderr.decode("utf-8", "replace")
        except subprocess.TimeoutExpired:
            return i, 124, "timeout"
    for i, rc, err in kv.pmap(one, range(len(S)), workers=8):
        name = S[i][0]
        V.case("valgrind:" + name, True)
        if rc == 9 or "uninitialised" in err or "Invalid read" in err or "Invalid write" in err:
            first = [x for x in err.splitlines() if "uninitialised" in x or "Invalid" in x]
            mm = re.search(r"\((\w+\.c):(\d+)\)", "\n".join(x for x in err.splitlines() if "kvdrive.c" not in x and ".c:" in x))
            V.violation("valgrind on scenario %s: %s" % (name, first[0].split("== ")[-1] if first else "error"), kv.save_replay("C05", "valgrind_" + name, [os.path.join(vdir, name + ".kv")]),
                        dict(kind="uninitialised", where="%s:%s" % (mm.group(1), mm.group(2)) if mm else "", scenario=name))
        elif rc not in (0,):
            V.violation("valgrind scenario %s: exit %d" % (name, rc), os.path.join(vdir, name + ".kv"), dict(kind="unexplained", rc=rc))
        else:
            V.traces += 1


def run(tier, seed, which="C05"):
    V = kv.Verdict("C05", tier, seed)
    wd = kv.workdir("c05")
    rng = random.Random(seed)
    kv.build("san")
    table_check(V, wd)
    # "no hang" on the design: the bisecting k-means recursion terminates (liveness under weak fairness); the twin whose
    # fallback looks at one cluster only does not
    rb = kv.run_tlc("Bisect", "MC_Bisect.cfg", wd, workers=1, timeout=600, name="bisect")
    V.add_tlc(rb)
    if not rb.ok:
        raise kv.Broken("MC_Bisect fails: %s" % rb.errors[:2])
    if kv.run_tlc("Bisect", "MC_Bisect_twin.cfg", wd, workers=1, timeout=600, name="bisect_twin").ok:
        raise kv.Broken("MC_Bisect twin terminates: the liveness property is vacuous")
    # (b) TLC-generated files
    r, all2 = tlc_files(wd, "MC_FileGen_all2.cfg")
    V.add_tlc(r)
    r, fasta4 = tlc_files(wd, "MC_FileGen_fasta4.cfg")
    V.add_tlc(r)
    files = list(all2)
    rng.shuffle(fasta4)
    files += fasta4[: (900 if tier == "quick" else 12000)]
    if tier != "quick":
        r, all3 = tlc_files(wd, "MC_FileGen_all3.cfg")
        V.add_tlc(r)
        files += all3
    for f in files:
        f["bytes"] = concretise(f)
    # well-formed larger files around buffer growth boundaries (line buffer of the block writers: 1024 lines; sequence array: 512)
    extra = []
    for n in ([1015, 1016, 1017] if tier == "quick" else list(range(1008, 1024)) + [2039, 2040, 2041]):
        seqs = gen.family(rng, n, 12, gen.DNA, sub=0.1, indel=0.0)
        extra.append(dict(kinds=["fasta with %d records" % n], bytes=kv.fasta([("r%d" % i, s) for i, s in enumerate(seqs)]).encode(), many=n))
    # compositions that stress the guide tree of 100 or more sequences (bisecting k-means): large groups of identical sequences
    # beside a few others make clusters empty, centroids equal and distances tie
    for (copies, others, L, alpha) in ([(110, 25, 40, gen.AA), (100, 1, 30, gen.DNA), (99, 30, 30, gen.DNA), (128, 2, 25, gen.DNA)] if tier == "quick" else
                                       [(c, o, L, a) for c in (99, 100, 101, 110, 128, 200, 300) for o in (1, 2, 25, 60) for (L, a) in ((40, gen.AA), (30, gen.DNA))]):
        base = gen.rand_seq(rng, alpha, L) + ("LKEF" if alpha == gen.AA else "")
        rel = [gen.mutate(rng, base, alpha, 0.2, 0.05) for _ in range(others)]
        seqs = [base] * copies + rel
        rng.shuffle(seqs)
        extra.append(dict(kinds=["%d copies + %d relatives" % (copies, others)], bytes=kv.fasta([("r%d" % i, s_) for i, s_ in enumerate(seqs)]).encode(), many="%d copies + %d relatives" % (copies, others)))
    for (g1, g2, L) in ([(100, 100, 30)] if tier == "quick" else [(100, 100, 30), (150, 120, 20), (100, 3, 15)]):
        b1, b2 = gen.rand_seq(rng, gen.DNA, L), gen.rand_seq(rng, gen.DNA, L)
        seqs = [b1] * g1 + [b2] * g2
        rng.shuffle(seqs)
        extra.append(dict(kinds=["two groups of copies"], bytes=kv.fasta([("r%d" % i, s_) for i, s_ in enumerate(seqs)]).encode(), many="%d + %d copies of two sequences" % (g1, g2)))
    # very long record names (beyond the 256 bytes kalign keeps, beyond any fixed line or row buffer) through all three writers
    for L in ([257, 330, 1100, 40000] if tier == "quick" else [255, 256, 257, 300, 323, 324, 330, 600, 1023, 1024, 1100, 5000, 40000, 200000]):
        seqs = gen.family(rng, 4, 70, gen.AA, sub=0.1, indel=0.03)
        recs = [("".join(rng.choice("abcdefXYZ012_|.") for _ in range(L)) + "_%d" % i, x + "LKEF") for i, x in enumerate(seqs)]
        extra.append(dict(kinds=["names of %d characters" % L], bytes=kv.fasta(recs).encode(), many="names of %d characters" % L))
    run_files(V, wd, files, "gen")
    # these get their own script: all three writers
    edir = os.path.join(wd, "many")
    os.makedirs(edir, exist_ok=True)

    hung = [0]

    def many(k):
        p = os.path.join(edir, "m%d.fa" % k)
        open(p, "wb").write(extra[k]["bytes"])
        comp = not isinstance(extra[k]["many"], int) and "copies" in extra[k]["many"]
        lines = ["level 1" if comp else "level 0", "note F%d" % k, "read 0 %s" % p, "run 0 4 5 -1 -1 -1"]
        for f in ("fasta", "msf", "clu"):
            lines.append("write 0 %s %s" % (f, os.path.join(edir, "m%d.%s" % (k, f))))
        lines += ["free 0", "note done%d" % k]
        # a run of a few seconds: a short first budget, and the repetition alone (three times the budget) only for the first two
        # runs that do not finish, so that a tree that hangs on every one of them still gets its verdict in minutes
        budget = 300 if isinstance(extra[k]["many"], int) else 60
        mode = "retry" if hung[0] < 2 else True
        tp, rc, err = kv.run_kvdrive("\n".join(lines) + "\n", edir, "m%d" % k, variant="san", leaks=True, timeout=budget, hang_is_verdict=mode)
        if rc == 124:
            hung[0] += 1
        bis = None
        if comp:
            # the k-means recursion of these compositions against Bisect.tla (non-empty parts that add up, every node finished)
            bp = os.path.join(edir, "m%d.bisect.ndjson" % k)
            kv.write_ndjson(bp, [e for e in kv.read_trace(tp) if e.get("e") in ("KmNode", "KmKids", "KmDone", "RunEnd")])
            bis = kv.run_tlc("BisectTrace", "BisectTrace.cfg", edir, trace=bp, timeout=600, heap="2g", name="bisect%d" % k)
        return k, rc, err, bis
    for k, rc, err, bis in kv.pmap(many, range(len(extra)), workers=8):
        V.case("many:%s" % extra[k]["many"], True)
        if bis is not None:
            V.add_tlc(bis)
            V.extra["kmeans_splits_checked_against_Bisect"] = V.extra.get("kmeans_splits_checked_against_Bisect", 0) + sum(1 for x in bis.prints if x.startswith('<<"KVSPLIT"'))
            for (ln, sid, items) in bis.divs:
                V.divergence("%s: k-means recursion event %d: %s" % (extra[k]["many"], ln, ",".join(sorted(items))))
        if rc != 0 or SAN_PAT.search(err):
            first = [x for x in err.splitlines() if "ERROR: " in x or "runtime error" in x]
            mm = re.search(r"(msa_io|msa_op|msa_alloc|alphabet|bpm|aln_\w+)\.c:(\d+)", err)
            V.violation("%s records written as fasta/msf/clu: exit %d %s" % (extra[k]["many"], rc, first[0][:200] if first else ""), kv.save_replay("C05", "many%d" % k, [os.path.join(edir, "m%d.fa" % k)]),
                        dict(kind="memory", where="%s.c:%s" % (mm.group(1), mm.group(2)) if mm else "", records=extra[k]["many"]))
        else:
            V.traces += 1
    # several input files whose contents do not fit together (nucleotide then protein and the reverse; a good file then garbage;
    # a good file then an empty one): the failure paths of reading into an existing object, under the sanitizers
    sdir = os.path.join(wd, "multi")
    os.makedirs(sdir, exist_ok=True)
    dnaf = present.write(os.path.join(sdir, "d.fa"), kv.fasta([("d%d" % i, s) for i, s in enumerate(gen.family(rng, 4, 30, gen.DNA))]))
    prof = present.write(os.path.join(sdir, "p.fa"), kv.fasta([("p%d" % i, s + "LKEF") for i, s in enumerate(gen.family(rng, 4, 30, gen.AA))]))
    garb = present.write(os.path.join(sdir, "g.txt"), "no sequences here 123\n\n")
    empt = present.write(os.path.join(sdir, "e.fa"), "")
    one = present.write(os.path.join(sdir, "o.fa"), ">single\nACGTACGTTTGA\n")
    combos = [[dnaf, prof], [prof, dnaf], [dnaf, garb], [garb, dnaf], [dnaf, empt], [empt, prof], [one, dnaf], [dnaf, one], [one, prof, dnaf], [dnaf, dnaf]]
    # files of very unequal record counts: the object that receives a later file grows by 512 records at a time, so the later
    # file must fit whatever its size (3 + 1100, 500 + 700, around the 512 boundary, three files, large then small)
    def sized(tag, n):
        fam = gen.family(rng, n, rng.randint(7, 10), gen.DNA, sub=0.3, indel=0.05)
        return present.write(os.path.join(sdir, "%s.fa" % tag), kv.fasta([("%s_%d" % (tag, i), s) for i, s in enumerate(fam)]))
    size_sets = [(3, 1100), (500, 700), (2, 520), (511, 2, 600), (1030, 3)] if tier == "quick" else [(3, 1100), (500, 700), (2, 520), (511, 2, 600), (1030, 3), (1, 513), (512, 513), (3, 1537), (100, 100, 1300), (2, 2100)]
    for si, ss in enumerate(size_sets):
        combos.append([sized("z%d_%d" % (si, j), n) for j, n in enumerate(ss)])

    def multi(k):
        lines = ["level 0", "note F%d" % k, "read 0 %s" % " ".join(combos[k]), "dump 0 in full", "run 0 2 5 -1 -1 -1", "dump 0 out full",
                 "write 0 fasta %s" % os.path.join(sdir, "m%d.out" % k), "free 0", "note done%d" % k]
        tp, rc, err = kv.run_kvdrive("\n".join(lines) + "\n", sdir, "m%d" % k, variant="san", leaks=True, timeout=300, hang_is_verdict="retry")
        rc2, so, se = kv.run_cli(combos[k] + ["-o", os.path.join(sdir, "c%d.out" % k)], variant="san", leaks=True, timeout=300, hang_is_verdict="retry")
        return k, rc, err, rc2, se.decode("utf-8", "replace")
    for k, rc, err, rc2, se in kv.pmap(multi, range(len(combos)), workers=8):
        V.case("multi:%d" % k, True)
        for what, r_, e_ in (("library", rc, err), ("command line", rc2, se)):
            leak_only = "LeakSanitizer" in e_ and "ERROR: AddressSanitizer" not in e_ and "runtime error" not in e_
            if leak_only:
                # a leak counts on the success path only: every library call returned OK / kalign printed no error
                if what == "library":
                    rcs = [e.get("rc") for e in kv.read_trace(os.path.join(sdir, "m%d.ndjson" % k)) if e.get("e") == "Ret" and e.get("op") in ("read", "run", "write")]
                    failed = any(x != 0 for x in rcs)
                else:
                    failed = " ERROR : " in e_ or "ERROR :" in e_
                if failed:
                    V.extra["error_path_leaks_ignored"] = V.extra.get("error_path_leaks_ignored", 0) + 1
                    continue
            if SAN_PAT.search(e_) or r_ in (124, 70) or r_ < 0 or r_ > 120:
                first = [x for x in e_.splitlines() if "ERROR: " in x or "runtime error" in x]
                mm = re.search(r"(msa_io|msa_op|msa_alloc|msa_check|alphabet|aln_\w+)\.c:(\d+)", e_)
                V.violation("input files %s through the %s: exit %d %s" % ([os.path.basename(x) for x in combos[k]], what, r_, first[0][:200] if first else ""),
                            kv.save_replay("C05", "multi%d" % k, combos[k]), dict(kind="memory", where="%s.c:%s" % (mm.group(1), mm.group(2)) if mm else "", files=[os.path.basename(x) for x in combos[k]]))
        V.traces += 1
    # uninitialised-value use is invisible to ASan: a valgrind (memcheck) pass over executions that enter every region
    valgrind_part(V, wd, rng, tier)
    # (c) the command line
    cli_part(V, wd, rng, tier)
    if tier != "quick":
        # byte-level mutations of valid files (bit flips, truncation, line duplication), loose protocol only
        base = [kv.fasta([("s%d" % i, s) for i, s in enumerate(gen.family(rng, 4, 30, gen.DNA))]).encode(),
                present.to_clustal(["a", "b", "c"], ["ACGT-ACGTA", "ACGTTACG-A", "AC-TTACGTA"]).encode(),
                present.to_msf(["a", "b", "c"], ["ACGT-ACGTA", "ACGTTACG-A", "AC-TTACGTA"], protein=False).encode()]
        muts = []
        for _ in range(3000):
            b = bytearray(rng.choice(base))
            for _k in range(rng.randint(1, 4)):
                op = rng.random()
                if op < 0.4 and b:
                    b[rng.randrange(len(b))] = rng.randrange(256)
                elif op < 0.6 and b:
                    del b[rng.randrange(len(b)):]
                elif op < 0.8 and b:
                    i = rng.randrange(len(b))
                    b[i:i] = b[max(0, i - 20):i]
                else:
                    b[rng.randrange(len(b) + 1):0] = bytes([rng.choice([0, 10, 13, 32, 45, 62, 255])])
            muts.append(dict(kinds=["mutated valid file"], bytes=bytes(b)))
        run_files(V, wd, muts, "mut")
    V.sample(dict(file_kinds=files[5]["kinds"], bytes=list(files[5]["bytes"][:80])))
    return V.finish(rule="(a) the five real code tables: every letter has a class; (b) every file of <= 2 lines over 27 line kinds and a sample of FASTA-kind files of <= 4 lines (TLC-enumerated from FileGen.tla), "
                    "each read, aligned and written under ASan+UBSan+LSan, protocol by ProtoTrace; record counts around the writers' 1024-line buffer; (c) option vectors sampled from the TLC-enumerated lattice "
                    "type x format x threads x gpo x input class x output class through the real binary, protocol by CliTrace; thorough adds all files of <= 3 lines and byte-level mutations",
                    assumptions=["memory errors are observed by the sanitizers on the generated executions; the specification decides the outcome protocol and table totality only",
                                 "a timeout counts only if it repeats at 4x the limit"])
