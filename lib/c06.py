"""C06: alignments survive a write/read round trip in every format and every ordered pair of formats (RoundTripTrace)."""
import os, random, json
import kv, gen
from c15 import aligned_rows

FMTS = ("fasta", "msf", "clu")


def boundary_rows(rng, n, nres, alpha, points):
    """rows whose residue counts reach nres and that carry a gap run in front of given residue numbers (and at the end)"""
    rows = []
    W = nres + 40
    for i in range(n):
        res = [rng.choice(alpha) for _ in range(nres - i)]
        r = []
        extra = W - len(res)
        pts = [p for p in points if p <= len(res)]
        share = max(1, extra // (len(pts) + 1))
        used = 0
        for k, c in enumerate(res, start=1):
            if k in pts and i % 2 == 0:
                r += ["-"] * share
                used += share
            r.append(c)
        r += ["-"] * (W - len(r))
        rows.append(r[:W] if len(r) >= W else r)
    W = max(len(r) for r in rows)
    rows = [r + ["-"] * (W - len(r)) for r in rows]
    for c in range(W):
        if all(r[c] == "-" for r in rows):
            for r in rows:
                pass
    # drop all-gap columns
    keep = [c for c in range(W) if not all(r[c] == "-" for r in rows)]
    return ["".join(r[c] for c in keep) for r in rows]


def scenarios(rng, tier):
    S = []
    widths = [1, 59, 60, 61, 120, 181] if tier == "quick" else [1, 2, 59, 60, 61, 119, 120, 121, 179, 180, 181, 300, 600]
    for W in widths:
        kind = rng.choice(["prot", "nuc"])
        alpha = "DEFHIKLMPQRSVWYACGT" if kind == "prot" else "ACGT"
        n = rng.choice([2, 3, 6])
        rows = aligned_rows(rng, n, W, alpha) if W > 1 else ["L", "-", "K"]
        n = len(rows)
        style = rng.choice(["wild", "long", "prefix"])
        if style == "long":
            names = ["".join(rng.choice("abcXYZ019_.|-") for _ in range(rng.choice([1, 17, 60, 128, 199]))) + "%d" % i for i in range(n)]
            names = [("n" + x)[:200] if x[0] in "-.|" else x for x in names]
        else:
            names = gen.names(rng, n, style)
        if rng.random() < 0.5:
            rows = ["".join(c.lower() if rng.random() < 0.3 else c for c in r) for r in rows]
        S.append(dict(id="syn_W%d" % W, mode="synthetic", names=names, rows=rows))
    # the longest names the property allows, with full 60-column blocks (row lines of 254..265 characters in the block formats)
    for nl in ([189, 190, 200] if tier == "quick" else [128, 188, 189, 190, 191, 192, 199, 200]):
        rows = aligned_rows(rng, 3, rng.choice([60, 75, 120]), "ACGT")
        names = ["".join(rng.choice("abcXYZ019_.|-") for _ in range(nl - 2)) + "q%d" % i for i in range(3)]
        names = [("n" + x[1:]) if x[0] in "-.|" else x for x in names]
        names[1] = names[1][: max(1, nl // 2)]
        S.append(dict(id="name_%d" % nl, mode="synthetic", names=names, rows=rows))
    # rows longer than the reader's 512-residue growth step, with gap runs exactly around the growth boundaries
    for nres in ([514, 1030] if tier == "quick" else [511, 512, 513, 514, 1024, 1025, 1030, 1540]):
        rows = boundary_rows(rng, 3, nres, "ACGT", [1, 2, 511, 512, 513, 514, 1023, 1024, 1025, 1026, 1536, 1537])
        S.append(dict(id="bnd_%d" % nres, mode="synthetic", names=["a", "bb", "c_c"], rows=rows))
    # many rows (row-array growth at 512)
    if tier != "quick":
        for n in (511, 512, 513, 1025):
            rows = aligned_rows(rng, n, 30, "ACGT")
            S.append(dict(id="many_%d" % n, mode="synthetic", names=gen.names(rng, n), rows=rows))
    # alignments produced by runs (some are gap free)
    for i in range(8 if tier == "quick" else 120):
        sc = gen.alignment_scenario(rng, nmax=9, lmax=130)
        sc["id"] = "run%d" % i
        sc["mode"] = "run"
        S.append(sc)
    for i, (s, k) in enumerate([("ACGTACGTAGCTAGCTAGCATCG", 3), ("LKEFWLKEFWMPQRS", 2)]):
        S.append(dict(id="gapfree%d" % i, mode="run", names=["x%d" % j for j in range(k)], seqs=[s] * k, type=5, gpo=-1, gpe=-1, tgpe=-1, threads=1))
    return S


def run(tier, seed, which="C06"):
    V = kv.Verdict("C06", tier, seed)
    wd = kv.workdir("c06")
    rng = random.Random(seed)
    r0 = kv.run_tlc("MC_RoundTrip", "MC_RoundTrip_q.cfg" if tier == "quick" else "MC_RoundTrip_t.cfg", wd, workers=8, timeout=3000, heap="6g")
    V.add_tlc(r0)
    if not r0.ok:
        raise kv.Broken("MC_RoundTrip: the modelled writers and readers are not inverse: %s" % r0.out[-500:])
    S = scenarios(rng, tier)
    batches = [S[i:i + 3] for i in range(0, len(S), 3)]

    def do(bi):
        bwd = os.path.join(wd, "b%d" % bi)
        os.makedirs(bwd, exist_ok=True)
        lines = ["level 1"]
        for k, sc in enumerate(batches[bi]):
            fa = os.path.join(bwd, "in%d.fa" % k)
            lines.append("note %s" % sc["id"])
            if sc["mode"] == "synthetic":
                open(fa, "w").write(kv.fasta(list(zip(sc["names"], sc["rows"])), width=60))
                # the file has exactly the layout kalign's FASTA writer produces: reading it is a read-back of the given alignment
                lines += ["read 0 %s" % fa, "dump 0 back full", "final 0"]
            else:
                open(fa, "w").write(kv.fasta(list(zip(sc["names"], sc["seqs"]))))
                lines += ["read 0 %s" % fa, "run 0 %d %d %g %g %g" % (sc["threads"], sc["type"], sc["gpo"], sc["gpe"], sc["tgpe"])]
            if sc["mode"] != "synthetic":
                lines.append("dump 0 orig full")
            for f in FMTS:
                p1 = os.path.join(bwd, "s%d_%s.out" % (k, f))
                lines += ["note %s:%s" % (sc["id"], f), "write 0 %s %s" % (f, p1), "read 1 %s" % p1, "dump 1 back full", "final 1"]
                for g in FMTS:
                    p2 = os.path.join(bwd, "s%d_%s_%s.out" % (k, f, g))
                    lines += ["note %s:%s>%s" % (sc["id"], f, g), "write 1 %s %s" % (g, p2), "read 2 %s" % p2, "dump 2 back full", "free 2"]
                lines.append("free 1")
            lines.append("free 0")
        tp, rc, err = kv.run_kvdrive("\n".join(lines) + "\n", bwd, "t", timeout=300)
        # the given alignment of a synthetic scenario is the reference (an input, written by the generator)
        ev = kv.read_trace(tp)
        out = []
        byid = {sc["id"]: sc for sc in batches[bi]}
        for e in ev:
            out.append(e)
            if e.get("e") == "Note" and e["text"] in byid and byid[e["text"]]["mode"] == "synthetic":
                sc = byid[e["text"]]
                out.append(dict(e="Obj", tag="orig", null=0, rows=1, names=[kv.asc(x) for x in sc["names"]], seqs=[kv.asc(r) for r in sc["rows"]]))
        kv.write_ndjson(tp, out)
        res = kv.run_tlc("RoundTripTrace", "RoundTripTrace.cfg", bwd, trace=tp, timeout=900, heap="3g")
        return bi, tp, rc, err, res

    for bi, tp, rc, err, res in kv.pmap(do, range(len(batches)), workers=12):
        V.add_tlc(res)
        ev = kv.read_trace(tp)
        origs = {}
        cur = None
        for e in ev:
            if e.get("e") == "Note":
                cur = e["text"].split(":")[0]
            if e.get("e") == "Obj" and e.get("tag") == "orig":
                origs[cur] = e
        for sc in batches[bi]:
            V.case(json.dumps([sc.get("rows") or sc.get("seqs"), sc["names"]]), True)
            V.evaluations += 11
        for (ln, sid, items) in res.fails:
            base = sid.split(":")[0]
            o = origs.get(base, {})
            gapfree = not any(45 in r for r in o.get("seqs", [[45]]))
            sig = dict(what=sorted(items), chain=sid.split(":")[1] if ":" in sid else "", gapfree=gapfree, conversion=">" in sid)
            rp = kv.save_replay("C06", "b%d" % bi, [tp, os.path.join(wd, "b%d" % bi, "t.kv")])
            V.violation("%s: %s (alignment %s)" % (sid, ",".join(sorted(items)), "without any gap" if gapfree else "with gaps"), rp, sig)
        if rc != 0 or not res.accepted:
            V.violation("batch %d: harness rc=%s accepted=%s %s" % (bi, rc, res.accepted, err[-300:].replace("\n", " ")), tp, dict(kind="unexplained"))
        else:
            V.traces += 12 * len(batches[bi])
        if bi == 0:
            V.sample(dict(scenario=batches[0][0]["id"], names=batches[0][0]["names"][:3], rows=[r[:70] for r in batches[0][0].get("rows", [])[:3]], chains="f and f>g for all f, g in fasta/msf/clu"))
    return V.finish(rule="alignments: synthetic (widths 1..600 incl. 59/60/61/120/180, names 1..200 chars from [A-Za-z0-9_.|-], mixed case, gap runs at the reader's 512-residue growth boundaries, 511..1025 rows) "
                    "and produced by runs (incl. gap-free ones); each written in 3 formats and read back, and each read-back copy converted into 3 formats and read back again (12 comparisons per alignment)",
                    assumptions=["conversion through kalign = read, finalise (as kalign_msa_compare does), write"])
