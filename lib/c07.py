"""C07: the DP kernels return the optimum whenever it is certifiably unique.
Scoring.tla (interval scoring model, fold DPs verified against brute force by MC_Scoring) + ScoringTrace on planted cases."""
import os, random, json
import kv, gen


def plant(rng, L, alpha, nsub, indels, over, at=None):
    """returns a, b, path (0 both, 1 gap in a, 2 gap in b): b is the base, a is derived by the planted script;
    at = {position in b: (kind, k)} places the indels explicitly"""
    b = [rng.choice(alpha) for _ in range(L)]
    a, path = [], []
    # positions of internal indels, well separated
    marks = dict(at or {})
    if indels and not at:
        lo, hi = 8, max(9, L - 8)
        pos = sorted(rng.sample(range(lo, hi), min(len(indels), max(0, hi - lo))))
        # keep them apart
        keep = []
        for p in pos:
            if not keep or p - keep[-1] > 40 or L < 200 and p - keep[-1] > 14:
                keep.append(p)
        for p, ind in zip(keep, indels):
            marks[p] = ind
    subs = set(rng.sample(range(L), min(nsub, L)))
    if at:
        # explicit placement: make the run's position unambiguous (it cannot slide by a column without losing a match)
        # and keep substitutions away from it, so that the planted alignment has a chance of being certified
        for pos, (kind, k) in marks.items():
            subs -= set(range(pos - 3, pos + k + 3))
            if kind == "del" and 1 <= pos and pos + k < L:
                while b[pos + k - 1] == b[pos - 1] or (k == 1 and b[pos] == b[pos + 1]):
                    b[pos + k - 1] = rng.choice(alpha)
                while b[pos + k] == b[pos] or (k == 1 and b[pos + k] == b[pos]):
                    b[pos + k] = rng.choice(alpha)
    j = 0
    while j < L:
        if j in marks:
            kind, k = marks[j]
            if kind == "del" and j + k < L - 4:       # a lacks k residues of b: gap in a
                path += [1] * k
                j += k
                continue
            if kind == "ins":                          # a has k extra residues: gap in b
                run = [rng.choice(alpha) for _ in range(k)]
                if at and 1 <= j:
                    while run[0] == b[j]:
                        run[0] = rng.choice(alpha)
                    while run[-1] == b[j - 1] or (k == 1 and run[0] == b[j]):
                        run[-1] = rng.choice(alpha)
                a += run
                path += [2] * k
        c = b[j]
        if j in subs:
            c = rng.choice([x for x in alpha if x != c])
        a.append(c)
        path.append(0)
        j += 1
    # terminal overhangs
    la, ra, lb, rb = over
    if la:
        a = [rng.choice(alpha) for _ in range(la)] + a
        path = [2] * la + path
    elif lb:
        b = [rng.choice(alpha) for _ in range(lb)] + b
        path = [1] * lb + path
    if ra:
        a = a + [rng.choice(alpha) for _ in range(ra)]
        path = path + [2] * ra
    elif rb:
        b = b + [rng.choice(alpha) for _ in range(rb)]
        path = path + [1] * rb
    return "".join(a), "".join(b), path


def cases(rng, tier):
    C = []
    n = 70 if tier == "quick" else 360
    for i in range(n):
        kind = rng.choice(["dna", "dna", "protein"])
        alpha = gen.DNA if kind == "dna" else "DEFHIKLMPQRSVWY" + "ACGT"
        if tier == "quick":
            L = rng.choice([12, 25, 40, 60, 90, 140]) if i >= 3 else [505, 530, 1010][i]
        else:
            L = rng.choice([10, 20, 40, 80, 150, 300, 480, 505, 530, 700]) if i >= 6 else [1010, 1100, 520, 515, 999, 1200][i]
        style = i % 5
        indels, over = [], (0, 0, 0, 0)
        if style in (0, 1, 4):
            indels = [(rng.choice(["ins", "del"]), rng.choice([1, 2, 3, 5, 8, 13, 30])) for _ in range(rng.randint(1, 3))]
        if style in (2, 3):
            o = [0, 0, 0, 0]
            o[rng.randrange(4)] = rng.randint(1, 25)
            if rng.random() < 0.4:
                o[rng.randrange(4)] = rng.randint(1, 25)
            over = tuple(o)
        if style == 4 and rng.random() < 0.5:
            o = [0, 0, 0, 0]
            o[rng.randrange(4)] = rng.randint(1, 10)
            over = tuple(o)
        nsub = rng.choice([0, 1, L // 20, L // 8])
        a, b, p = plant(rng, L, alpha, nsub, indels, over)
        if kind == "protein":
            ty = rng.choice([3, 4, 5])
        else:
            ty = rng.choice([0, 1, 2, 5])
        if L >= 500 and ty in (2, 5) and kind == "dna":
            ty = rng.choice([0, 1])          # long cases: integer-valued scores, no float allowance needed
        pens = (-1, -1, -1)
        if rng.random() < 0.25:
            # user penalties in the range of the selected matrix
            if ty in (0, 1):
                pens = (rng.choice([8, 12, 20]), rng.choice([1, 3, 6]), rng.choice([0, 2, 8]))
            elif kind == "dna":
                pens = (rng.choice([100, 217, 300]), rng.choice([20, 39.4, 60]), rng.choice([0, 50, 292.6]))
            elif ty == 4:
                pens = (rng.choice([30, 55, 80]), rng.choice([4, 8]), rng.choice([1, 4]))
            else:
                pens = (rng.choice([5.5, 8, 12]), rng.choice([1, 2]), rng.choice([0.5, 1, 2]))
        ka, kb = (1, 1) if i % 3 else (rng.randint(1, 3), rng.randint(1, 3))
        C.append(dict(id="p%d" % i, a=a, b=b, p=p, type=ty, pens=pens, ka=ka, kb=kb, kind=kind, threads=rng.choice([1, 4])))
    # gap runs in the LONGER sequence (the shorter one carries an insertion and, elsewhere, a larger deletion), every type in turn:
    # these runs are the ones the Hirschberg recursion cuts through row by row
    m = 70 if tier == "quick" else 300
    for i in range(m):
        kind = "dna" if i % 2 else "protein"
        alpha = gen.DNA if kind == "dna" else "DEFHIKLMPQRSVWY" + "ACGT"
        L = rng.choice([90, 120, 150]) if tier == "quick" or i % 10 else rng.choice([520, 640])
        ins = [("ins", rng.choice([2, 3, 4, 5, 6, 9])) for _ in range(rng.randint(1, 3))]
        dele = [("del", rng.choice([3, 5, 8, 12])) for _ in range(rng.randint(1, 3))]
        while sum(k for _, k in dele) <= sum(k for _, k in ins):
            dele.append(("del", rng.choice([4, 7])))
        script = ins + dele
        rng.shuffle(script)
        a, b, p = plant(rng, L, alpha, rng.choice([0, L // 15]), script, (0, 0, 0, 0))
        ty = [2, 5, 0, 1][(i // 2) % 4] if kind == "dna" else [4, 4, 3, 5][(i // 2) % 4]
        if L >= 500 and ty in (2, 5) and kind == "dna":
            ty = 1
        pens = (-1, -1, -1)
        if i % 3 == 0:
            pens = (30, 2, 2) if kind == "protein" else ((20, 1, 2) if ty in (0, 1) else (300, 20, 50))
        ka, kb = (1, 1) if i % 5 else (rng.randint(1, 3), rng.randint(1, 3))
        if kind == "protein" and i % 4 == 2:
            # ambiguity codes (B, Z, X) near the indels, and groups on both sides: the profile-profile kernel with all 23 residue codes
            def amb(t):
                t = list(t)
                for _k in range(max(2, len(t) // 8)):
                    t[rng.randrange(len(t))] = rng.choice("BZX")
                return "".join(t)
            pos = [k for k in range(min(len(a), len(b)))]
            a2, b2 = list(a), list(b)
            # the same letters at aligned positions: walk the planted path
            ia = ib = 0
            for c in p:
                if c == 0:
                    if rng.random() < 0.15:
                        ch = rng.choice("BZ")
                        a2[ia] = ch
                        b2[ib] = ch if rng.random() < 0.7 else rng.choice("DNEQ")
                    ia += 1
                    ib += 1
                elif c == 1:
                    ib += 1
                else:
                    ia += 1
            a, b = "".join(a2), "".join(b2)
            ty = rng.choice([3, 5])
            ka, kb = rng.randint(2, 3), rng.randint(2, 3)
        C.append(dict(id="q%d" % i, a=a, b=b, p=p, type=ty, pens=pens, ka=ka, kb=kb, kind=kind, threads=rng.choice([1, 4])))
    # a gap run in the longer sequence that CROSSES a split row of the recursion (rows = the shorter sequence, split rows are
    # L/2, L/4, ... on the left-most chain of blocks and L - L/2^k on the right-most one): the meetup's gb->gb transition,
    # which must cost the internal extension there (found by the thorough tier on the pinned tree: it cost tgpe)
    m = 24 if tier == "quick" else 160
    for i in range(m):
        kind = "dna" if i % 4 else "protein"
        alpha = gen.DNA if kind == "dna" else "DEFHIKLMPQRSVWY" + "ACGT"
        L = rng.choice([64, 100, 150, 200]) if tier == "quick" or i % 8 else rng.choice([512, 600])
        if i % 12 == 5:
            L = rng.choice([1040, 1100])        # two nested levels of the parallel controller: its children start inside the gap run
        j = 1 + i % 4 if L < 1000 else 1
        row = L >> j if (i // 4) % 2 == 0 else L - (L >> j)
        k = rng.choice([2, 3, 5]) if L < 1000 else 6
        start = max(6, row - rng.randint(1, k - 1))
        far = (start + L // 2) % L
        far = min(max(far, 8), L - 12)
        if abs(far - start) < k + 10:
            far = L - 12 if start < L // 2 else 8
        at = {start: ("del", k), far: ("ins", k + rng.choice([3, 6]))}
        a, b, p = plant(rng, L, alpha, rng.choice([0, L // 20]), None, (0, 0, 0, 0), at=at)
        ty = [5, 2, 0, 1][(i // 2) % 4] if kind == "dna" else [3, 4, 5][i % 3]
        if L >= 500 and ty in (2, 5) and kind == "dna":
            ty = 1
        pens = (-1, -1, -1)
        if L >= 1000:
            kind, ty = "dna", rng.choice([0, 1])
        if i % 5 == 4:
            pens = (30, 2, 9) if kind == "protein" else ((20, 1, 8) if ty in (0, 1) else (217, 39.4, 0))
        ka, kb = (1, 1) if i % 3 else (rng.randint(1, 3), rng.randint(1, 3))
        C.append(dict(id="s%d" % i, a=a, b=b, p=p, type=ty, pens=pens, ka=ka, kb=kb, kind=kind, threads=rng.choice([1, 4])))
    return C


def run(tier, seed, which="C07"):
    V = kv.Verdict("C07", tier, seed)
    wd = kv.workdir("c07")
    rng = random.Random(seed)
    # model checking (each with a twin that must be rejected), run beside the traced executions:
    #  MC_Scoring     the fold DPs of the certificate agree with brute force
    #  MC_Hirschberg  every choice the meetup can return leads to a well-formed path
    #  MC_Kernel      C07 on the model: kernel + recursion return every certified unique optimum (twin: pre-24dd196 meetup rule)
    #  MC_Progressive the generalised kernel equals Kernel on sequences, merges copies flat, returns the certified optimum for groups
    q = tier == "quick"
    mcs = [("MC_Scoring", "MC_Scoring_q.cfg" if q else "MC_Scoring_t.cfg", True, 6), ("MC_Hirschberg", "MC_Hirschberg_ok.cfg", True, 4),
           ("MC_Hirschberg", "MC_Hirschberg_twin.cfg", False, 4), ("MC_Kernel", "MC_Kernel_q.cfg", True, 8), ("MC_Kernel", "MC_Kernel_twin.cfg", False, 8),
           ("MC_Progressive", "MC_Progressive_q.cfg" if q else "MC_Progressive_t.cfg", True, 8), ("MC_Progressive", "MC_Progressive_twin.cfg", False, 8)]
    if not q:
        mcs.append(("MC_Kernel", "MC_Kernel_t5.cfg", True, 12))
    from concurrent.futures import ThreadPoolExecutor
    mcpool = ThreadPoolExecutor(3)

    def mc(job):
        mod, cfg, expect, w = job
        mwd = os.path.join(wd, "mc_" + cfg.replace(".cfg", ""))
        os.makedirs(mwd, exist_ok=True)
        return job, kv.run_tlc(mod, cfg, mwd, workers=w, timeout=3400, heap="8g")
    mcfut = [mcpool.submit(mc, j) for j in mcs]
    C = cases(rng, tier)
    # batches balanced by DP cost
    C.sort(key=lambda c: -len(c["a"]) * len(c["b"]))
    batches, cur, cost = [], [], 0
    for c in C:
        w = len(c["a"]) * len(c["b"]) + 2000
        if cur and (cost + w > 150000 or len(cur) >= 12):
            batches.append(cur)
            cur, cost = [], 0
        cur.append(c)
        cost += w
    if cur:
        batches.append(cur)

    def do(bi):
        bwd = os.path.join(wd, "b%d" % bi)
        os.makedirs(bwd, exist_ok=True)
        lines = ["level 1", "hserial 1"]
        for k, c in enumerate(batches[bi]):
            fa = os.path.join(bwd, "c%d.fa" % k)
            recs = [("a%d" % i, c["a"]) for i in range(c["ka"])] + [("b%d" % i, c["b"]) for i in range(c["kb"])]
            open(fa, "w").write(kv.fasta(recs))
            lines += ["note CASE %d" % k, "read 0 %s" % fa, "run 0 %d %d %g %g %g" % (c["threads"], c["type"], c["pens"][0], c["pens"][1], c["pens"][2]), "dump 0 out full", "free 0"]
        tp, rc, err = kv.run_kvdrive("\n".join(lines) + "\n", bwd, "t", timeout=600, env={"OMP_MAX_ACTIVE_LEVELS": "2"})
        ev = kv.read_trace(tp)
        # the recursion itself, step by step, against the controller model (diagnostic: a divergence is not a verdict)
        hp = os.path.join(bwd, "h.ndjson")
        kv.write_ndjson(hp, [e for e in ev if e.get("e") in ("HStep", "HSplit")])
        hres = kv.run_tlc("HirschTrace", "HirschTrace.cfg", bwd, trace=hp, timeout=1200, heap="3g", name="hirsch")
        out, kout = [], []
        for e in ev:
            if e.get("e") == "Note" and e["text"].startswith("CASE "):
                c = batches[bi][int(e["text"][5:])]
                out.append(dict(e="Case", id=c["id"], a=kv.asc(c["a"]), b=kv.asc(c["b"]), p=c["p"], ka=c["ka"], kb=c["kb"]))
                kout.append(out[-1])
            elif e.get("e") in ("Params", "Obj"):
                out.append(e)
                kout.append(e)
            elif e.get("e") in ("Sorted", "HSplit"):
                kout.append(e)
        kv.write_ndjson(tp, out)
        res = kv.run_tlc("ScoringTrace", "ScoringTrace.cfg", bwd, trace=tp, timeout=3000, heap="4g")
        # every split of the pairs re-derived from the constructive kernel model (diagnostic as well)
        kp = os.path.join(bwd, "k.ndjson")
        kv.write_ndjson(kp, kout)
        kres = kv.run_tlc("KernelTrace", "KernelTrace.cfg", bwd, trace=kp, timeout=3000, heap="4g", name="kernel")
        hres.kernel = kres
        hres.kernel_splits = sum(1 for e in kout if e.get("e") == "HSplit")
        return bi, tp, rc, err, res, hres

    for bi, tp, rc, err, res, hres in kv.pmap(do, range(len(batches)), workers=14):
        V.add_tlc(res)
        V.add_tlc(hres)
        V.extra["controller_steps_validated"] = V.extra.get("controller_steps_validated", 0) + hres.distinct
        for (ln, sid, items) in hres.divs:
            V.divergence("batch %d controller event %d: %s" % (bi, ln, ",".join(sorted(items))))
        kres = hres.kernel
        V.add_tlc(kres)
        if not kres.accepted:
            V.divergence("batch %d: kernel trace not consumed to the end" % bi)
        nskip = sum(1 for x in kres.prints if x.startswith('<<"KVSKIP"'))
        V.extra["kernel_splits_rederived"] = V.extra.get("kernel_splits_rederived", 0) + hres.kernel_splits
        V.extra["kernel_pairs_walked"] = V.extra.get("kernel_pairs_walked", 0) + len(batches[bi]) - nskip
        V.extra["kernel_too_close_to_call_in_float"] = V.extra.get("kernel_too_close_to_call_in_float", 0) + sum(1 for x in kres.prints if x.startswith('<<"KVNOTE"'))
        for (ln, sid, items) in kres.divs:
            info = [x for x in kres.prints if x.startswith('<<"KVINFO",%d,' % ln)]
            V.divergence("batch %d kernel event %d case %s: %s %s" % (bi, ln, sid, ",".join(sorted(items)), info[0][:200] if info else ""))
        skipped = set()
        for line in res.prints:
            if line.startswith('<<"KVSKIP"'):
                parts = line.split('"')
                if len(parts) > 3:
                    skipped.add(parts[3])
        V.extra["no_certificate_skipped"] = V.extra.get("no_certificate_skipped", 0) + len(skipped)
        byid = {c["id"]: c for c in batches[bi]}
        for c in batches[bi]:
            V.case(json.dumps([c["a"], c["b"], c["type"], c["pens"], c["ka"], c["kb"]]), c["id"] not in skipped)
            if c["id"] not in skipped:
                key = "certified_%s" % ("ge500" if min(len(c["a"]), len(c["b"])) >= 500 else "lt500")
                V.extra[key] = V.extra.get(key, 0) + 1
        for (ln, cid, items) in res.fails:
            c = byid.get(cid, {})
            rp = kv.save_replay("C07", "b%d" % bi, [tp, os.path.join(wd, "b%d" % bi, "t.kv")])
            V.violation("case %s (type %s, penalties %s, %dx%d copies, lengths %d/%d): %s" % (cid, c.get("type"), c.get("pens"), c.get("ka", 0), c.get("kb", 0), len(c.get("a", "")), len(c.get("b", "")), ",".join(sorted(items))),
                        rp, dict(what=sorted(items), type=c.get("type"), ka=c.get("ka"), kb=c.get("kb")))
        if rc != 0 or not res.accepted:
            V.violation("batch %d: harness rc=%s accepted=%s %s" % (bi, rc, res.accepted, err[-300:].replace("\n", " ")), tp, dict(kind="unexplained"))
        else:
            V.traces += len(batches[bi]) - len(skipped)
    # whole progressive alignments (profile x sequence, profile x profile merges) walked through GKernel / Profile
    import prog
    prog.run(V, wd, random.Random(seed * 7919 + 13), tier)
    # exhaustive small-scope conformance: every pair (triple) of short sequences over two (three) letters through the real
    # code, every split re-derived from the model
    import smallscope
    smallscope.pairs(V, wd, tier, random.Random(seed))
    smallscope.triples(V, wd, tier, random.Random(seed))
    for fu in mcfut:
        (mod, cfg, expect, w), res = fu.result()
        if expect:
            V.add_tlc(res)
        if res.ok != expect:
            raise kv.Broken("%s %s: %s" % (mod, cfg, "fails: " + res.out[-500:] if expect else "the broken twin is not rejected"))
    c0 = C[-1]
    V.sample(dict(a=c0["a"], b=c0["b"], planted_path=c0["p"], type=c0["type"], copies=[c0["ka"], c0["kb"]]))
    return V.finish(rule="planted alignments: base sequence, substitutions, 1-3 internal indels of length 1..30 or terminal overhangs on any side, DNA and protein, all five types and the default, "
                    "user penalties, groups of 1..3 identical copies per side, lengths 10..1200 on both sides of the 500-column switch; a case counts as non-trivial only if Scoring!UniqueOptimum "
                    "certifies the planted alignment (every other alignment is worse under every admissible end-gap charge by more than the tie-break + float slack); others are skipped",
                    assumptions=["the interval scoring model of Scoring.tla (validated against brute force by MC_Scoring and against kalign on uncertified cases only through the skip count)",
                                 "parameters in force are read from the Params hook event"])
