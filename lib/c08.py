"""C08: identical sequences are aligned without gaps. Groups with relation Relate!NoDash (one member per group)."""
import random, json
import kv, gen, rel


def run(tier, seed, which="C08"):
    V = kv.Verdict("C08", tier, seed)
    wd = kv.workdir("c08")
    rng = random.Random(seed)
    kv.mc_aligner(V, wd, "c08", tier)
    groups = []

    def add(gid, s, k, ty, threads):
        names = ["c%03d" % i for i in range(k)]
        groups.append(dict(gid=gid, rel="nodash", prop="C08", members=[dict(names=names, seqs=[s] * k, type=ty, threads=threads)],
                           key="%s:%d:%d" % (s[:300], k, ty), nontrivial=True))

    nuc_comp = {"uniform": gen.DNA, "rna": gen.RNA, "allN": "N", "allA": "A", "allU": "U", "iupac": "ACGTNRYSWKMBDHV"[:6] + "ACGT" * 3, "at": "AT"}
    prot_comp = {"uniform": gen.AA, "allX": "X", "allB": "B", "allZ": "Z", "allW": "W", "bzx": "DEFHIKLMPQRSVWY" * 2 + "BZX", "low": "GASTP" + "LKEF"}
    ks = [2, 3, 5, 33, 100] if tier == "quick" else [2, 3, 5, 31, 33, 99, 100, 101, 250, 500]
    lens = [1, 2, 3, 10, 60, 499, 501] if tier == "quick" else [1, 2, 3, 10, 59, 60, 61, 499, 500, 501, 1000, 2000, 5000]
    i = 0
    for cname, alpha in list(nuc_comp.items()) + list(prot_comp.items()):
        isprot = cname in prot_comp and alpha is prot_comp[cname]
        for L in lens:
            for k in ks:
                if tier == "quick" and (i * 7 + L + k) % 6:
                    i += 1
                    continue
                if k * L > (60000 if tier == "quick" else 2500000):
                    continue
                s = gen.rand_seq(rng, alpha, L)
                if rng.random() < 0.2:
                    s = gen.case_mask(rng, s, 0.5)
                # admissible types are decided on the string itself, by the premises of C13: typed protein runs only if at least a
                # quarter of the letters occur only in proteins, typed nucleotide runs only if every letter is one of ACGTUN;
                # everything else runs with the undefined type (kalign's own detection picks the kind)
                up = s.upper()
                if sum(c in "EFILPQ" for c in up) * 4 >= len(up) and "U" not in up:
                    tys = [3, 4, 5]
                elif all(c in "ACGTUN" for c in up):
                    tys = [0, 1, 2, 5]
                else:
                    tys = [5]
                add("%s_L%d_k%d" % (cname, L, k), s, k, rng.choice(tys), rng.choice([1, 2, 4, 16]))
                i += 1
    # long sequences on both sides of the nested levels of the parallel controller (odd and even lengths), few copies
    for L in ([777, 1001, 2004] if tier == "quick" else [501, 777, 1000, 1001, 1503, 2001, 2004, 3001]):
        for cname, alpha in (("uniform", gen.DNA), ("uniformp", gen.AA)):
            s = gen.rand_seq(rng, alpha, L)
            add("%s_long_L%d" % (cname, L), s, rng.choice([2, 3, 4]), 5, rng.choice([2, 4, 16]))
    # many copies of a single-letter string: the regime in which gap costs and substitution scores scale with the group sizes
    for cname, ch, tys in (("allX", "X", [5]), ("allN", "N", [0, 0, 2, 5]), ("allB", "B", [5]), ("allA", "A", [0, 1, 2, 5]), ("allW", "W", [5]), ("allL", "L", [3, 4, 5])):
        for k, L in ([(300, 40), (500, 12), (480, 120)] if tier == "quick" else [(258, 700), (300, 40), (400, 10), (440, 60), (480, 120), (500, 5), (500, 60), (500, 2000), (1000, 20), (1000, 200)]):
            add("%s_many_L%d_k%d" % (cname, L, k), ch * L, k, rng.choice(tys), rng.choice([1, 4, 16]))
    V.sample(dict(group=groups[0]["gid"], seq=groups[0]["members"][0]["seqs"][0][:80], copies=len(groups[0]["members"][0]["seqs"])))
    rel.run_groups(V, groups, wd, per_batch=3, timeout=900, workers=8, heap="6g")
    return V.finish(rule="k copies of one string: k in %s, length in %s, compositions uniform / single letter (all-N, all-X, all-B, all-Z, all-U, all-W) / IUPAC mixtures / mixed case, "
                    "every admissible type, threads 1..16; relation: no '-' in any row and the run succeeds; distinct by (string, k, type)" % (ks, lens),
                    assumptions=["types are chosen admissible for the kind of sequence kalign detects; ambiguous compositions run with the undefined type only"])
