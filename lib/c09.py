"""C09: the scoring parameters in force are the ones selected. Params.tla lemmas (MC) + ParamsTrace on
(a) the complete aln_param_init table, (b) kalign_run's Params hook, (c) command line runs, (d) explicit-default = default."""
import os, random, json, itertools
import kv, gen

# documented defaults (inputs for the explicit-default runs), units as given on the command line
DEFAULTS = {0: (8, 6, 0), 1: (8, 6, 8), 2: (217, 39.4, 292.6), 3: (5.5, 2.0, 1.0), 4: (55, 8, 4)}
WORDS = {0: "dna", 1: "internal", 2: "rna", 3: "protein", 4: "divergent"}


def g(x):
    return "%g" % x


def table_scripts(tier):
    vals = [-1, 0, 7.5, 123]
    scripts = []
    for b in (0, 1):
        lines = []
        for ty in range(6):
            d = DEFAULTS.get(ty, DEFAULTS[2] if b == 1 else DEFAULTS[3])
            for k, (o, e, t) in enumerate(itertools.product(vals + [d[0]], vals + [d[1]], vals + [d[2]])):
                if tier == "quick" and k % 3 and not (o == -1 or e == -1 or t == -1):
                    continue
                lines.append("param %d %d %s %s %s" % (b, ty, g(o), g(e), g(t)))
        # split in two files per biotype
        half = len(lines) // 2
        scripts.append("\n".join(lines[:half]) + "\n")
        scripts.append("\n".join(lines[half:]) + "\n")
    return scripts


def inputs(rng, wd):
    files = {}
    dna = gen.family(rng, 6, 40, gen.DNA, sub=0.15, indel=0.08)
    prot = [s + "LKEF" for s in gen.family(rng, 6, 40, gen.AA, sub=0.2, indel=0.08)]
    for k, seqs in (("dna", dna), ("prot", prot)):
        p = os.path.join(wd, k + ".fa")
        open(p, "w").write(kv.fasta([("s%d" % i, s) for i, s in enumerate(seqs)]))
        files[k] = p
    return files


def run(tier, seed, which="C09"):
    V = kv.Verdict("C09", tier, seed)
    wd = kv.workdir("c09")
    rng = random.Random(seed)
    r = kv.tlc_mc("MC_Params", "MC_Params.cfg", wd, workers=1)
    V.add_tlc(r)
    if not r.ok:
        raise kv.Broken("Params lemmas fail: %s" % r.errors[:2])
    jobs = []   # (name, trace_path)
    # (a) complete table through aln_param_init
    for i, sc in enumerate(table_scripts(tier)):
        tp, rc, err = kv.run_kvdrive(sc, wd, "table%d" % i, timeout=120)
        n = sc.count("\n")
        V.evaluations += n
        jobs.append(("table%d" % i, tp, rc, err))
    files = inputs(rng, wd)
    # (b) kalign_run: every type x subset of overrides, both kinds of sequence
    lines = []
    k = 0
    for kind, b in (("dna", 1), ("prot", 0)):
        for ty in range(6):
            for mask in range(8):
                o = 7.5 if mask & 1 else -1
                e = 3.5 if mask & 2 else -1
                t = 2.5 if mask & 4 else -1
                lines += ["reset", "note run_%s_t%d_m%d" % (kind, ty, mask), "read 0 %s" % files[kind],
                          "run 0 2 %d %s %s %s" % (ty, g(o), g(e), g(t)), "free 0"]
                k += 1
    V.evaluations += k
    tp, rc, err = kv.run_kvdrive("\n".join(lines) + "\n", wd, "runs", timeout=300)
    jobs.append(("runs", tp, rc, err))
    # (d) explicit default == default, end to end, on generated inputs
    lines = []
    nfam = 6 if tier == "quick" else 60
    for i in range(nfam):
        sc = gen.alignment_scenario(rng, nmax=8, lmax=80)
        types = [0, 1, 2] if sc["kind"] != "protein" else [3, 4]
        fa = os.path.join(wd, "fam%d.fa" % i)
        open(fa, "w").write(kv.fasta(list(zip(sc["names"], sc["seqs"]))))
        for ty in types:
            d = DEFAULTS[ty]
            lines += ["reset", "note expdef_%d_t%d" % (i, ty), "read 0 %s" % fa, "run 0 2 %d -1 -1 -1" % ty, "dump 0 def full", "free 0",
                      "read 1 %s" % fa, "run 1 2 %d %s %s %s" % (ty, g(d[0]), g(d[1]), g(d[2])), "dump 1 exp full", "free 1"]
            V.evaluations += 1
            V.case("expdef:%s:%d" % (json.dumps(sc["seqs"]), ty))
    tp, rc, err = kv.run_kvdrive("\n".join(lines) + "\n", wd, "expdef", timeout=300)
    jobs.append(("expdef", tp, rc, err))
    # (c) the command line
    cli_events = []
    pens = [dict(), dict(gpo=7.5), dict(gpe=3.5), dict(tgpe=2.5), dict(gpo=1, gpe=2, tgpe=3), dict(gpo=250, gpe=77.5, tgpe=123.5), dict(gpo=0, gpe=0, tgpe=0)]
    ci = 0
    for kind in ("dna", "prot"):
        for ty in [None, 0, 1, 2, 3, 4]:
            for p in (pens if tier != "quick" else pens[:4] + pens[5:]):
                word = "" if ty is None else WORDS[ty]
                args = ["-i", files[kind], "-o", os.path.join(wd, "cli%d.out" % ci), "-n", "2"]
                if word:
                    args += ["--type", word]
                for kk, vv in p.items():
                    args += ["--" + kk, g(vv)]
                tr = os.path.join(wd, "cli%d.ndjson" % ci)
                if os.path.exists(tr):
                    os.remove(tr)
                rc, so, se = kv.run_cli(args, env={"KALIGN_VERIF_TRACE": tr}, timeout=60)
                cli_events.append(dict(e="Reset"))
                cli_events.append(dict(e="Note", text="cli_%s_%s_%s" % (kind, word or "none", "_".join(sorted(p)) or "nopen")))
                cli_events.append(dict(e="Cli", word=word, gpo=round(p.get("gpo", -1) * 10), gpe=round(p.get("gpe", -1) * 10),
                                       tgpe=round(p.get("tgpe", -1) * 10), exit=rc))
                cli_events += kv.read_trace(tr)
                cli_events.append(dict(e="CliEnd"))
                ci += 1
                V.evaluations += 1
                V.case("cli:%s:%s:%s" % (kind, word, sorted(p.items())))
    tp = os.path.join(wd, "cli_all.ndjson")
    kv.write_ndjson(tp, cli_events)
    jobs.append(("cli", tp, 0, ""))

    def tlc(job):
        name, tp, rc, err = job
        return job, kv.run_tlc("ParamsTrace", "ParamsTrace.cfg", wd, trace=tp, timeout=900, name=name)

    for (name, tp, rc, err), res in kv.pmap(tlc, jobs, workers=8):
        V.add_tlc(res)
        ev = kv.read_trace(tp)
        if name.startswith("table"):
            for e in ev:
                if e.get("e") == "ParamInit":
                    V.nontrivial.add("t:%d:%d:%d:%d:%d" % (e["biotype"], e["type"], e["ingpo"], e["ingpe"], e["intgpe"]))
        if name == "runs":
            for e in ev:
                if e.get("e") == "Note":
                    V.nontrivial.add(e["text"])
        for (ln, sid, items) in res.fails:
            e = ev[ln - 1] if ln - 1 < len(ev) else {}
            sig = dict(what=sorted(items), event=e.get("e"), source=name.rstrip("0123456789"))
            for kk in ("biotype", "type", "ingpo", "ingpe", "intgpe"):
                if kk in e:
                    sig[kk] = e[kk]
            pend = None
            # context for run/cli events: the preceding RunBegin / Cli
            for j in range(ln - 1, -1, -1):
                if ev[j].get("e") in ("RunBegin", "Cli") and pend is None:
                    pend = ev[j]
                    break
            if pend:
                sig["ctx"] = {k2: pend[k2] for k2 in pend if k2 in ("biotype", "type", "gpo", "gpe", "tgpe", "word")}
                for k2, v2 in sig["ctx"].items():
                    sig["ctx_" + k2] = v2
            rp = kv.save_replay("C09", name, [tp, os.path.join(wd, name + ".kv")])
            V.violation("%s line %d (%s): %s %s" % (name, ln, sid, ",".join(sorted(items)), json.dumps({k3: v3 for k3, v3 in sig.items() if k3 not in ("what", "ctx")})), rp, sig)
        if not res.accepted or rc != 0:
            rp = kv.save_replay("C09", name, [tp])
            V.violation("%s: execution not explained by the specification (rc=%s) %s" % (name, rc, err[-200:]), rp, dict(kind="unexplained", source=name))
        else:
            V.traces += 1
    V.sample(dict(table="param <biotype> <type> <gpo> <gpe> <tgpe> for 2 x 6 x 5^3 combinations", cli="kalign -i dna.fa --type internal --gpo 7.5"))
    return V.finish(rule="complete table biotype x type x {absent,0,7.5,123,type default}^3 through aln_param_init (each entry distinct); "
                    "kalign_run on a DNA and a protein file for 6 types x 8 override subsets; command line words x penalties; explicit-default vs default on generated families",
                    assumptions=["r10 rounding of float parameters to 0.1 units in the hook", "documented matrices transcribed once from aln_param.c"],
                    exhaustive=(tier != "quick"))
