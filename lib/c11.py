"""C11: the bit-parallel distance kernel equals the semi-global edit distance.
MC_Myers: the blocked algorithm (generic word width) is correct for every small input (twin: wrong padding must fail).
MyersTrace: return values of bpm_block / bpm / bpm_256 of the real code vs Myers!SemiGlobal computed by TLC."""
import os, random, itertools
import kv


def pairs_exhaustive(maxn, sigma):
    out = []
    words = [[]]
    allw = []
    for _ in range(maxn):
        words = [w + [c] for w in words for c in range(sigma)]
        allw += words
    for t in allw:
        for p in allw:
            if 1 <= len(p) <= len(t):
                out.append((t, p))
    return out


def seeded_pairs(rng, tier):
    out = []
    ms = [1, 2, 31, 62, 63, 64, 65, 127, 128, 129, 191, 192, 193, 255, 256, 257]
    ms += [400, 640]            # unrelated pairs this long have distances beyond 255
    if tier != "quick":
        ms += [320, 511, 512, 513, 1023, 1024, 1025, 1500, 3000]
    # unrelated long pairs over the full 13-symbol alphabet: distances beyond 255
    for m in ([300, 400, 640] if tier == "quick" else [300, 400, 640, 900, 1024, 1400, 2500]):
        for _ in range(2):
            out.append(([rng.randrange(13) for _ in range(m + rng.randint(0, 60))], [rng.randrange(13) for _ in range(m)]))
    reps = 3 if tier == "quick" else 12
    for m in ms:
        for r in range(reps):
            sigma = rng.choice([2, 4, 13, 13])
            skew = rng.random() < 0.3
            def sym():
                return 0 if (skew and rng.random() < 0.6) else rng.randrange(sigma)
            style = r % 6
            if style == 0:      # unrelated
                n = rng.choice([m, m + 1, 2 * m, m + 70])
                t = [sym() for _ in range(n)]
                p = [sym() for _ in range(m)]
            elif style == 1:    # planted near match inside the text
                p = [sym() for _ in range(m)]
                q = list(p)
                for _ in range(rng.randint(0, max(1, m // 10))):
                    k = rng.randrange(len(q))
                    op = rng.random()
                    if op < 0.4:
                        q[k] = sym()
                    elif op < 0.7 and len(q) > 1:
                        del q[k]
                    else:
                        q.insert(k, sym())
                t = [sym() for _ in range(rng.randint(0, 80))] + q + [sym() for _ in range(rng.randint(0, 80))]
            elif style == 2:    # the text ends inside the pattern, the pattern goes on with symbol 0
                body = [sym() for _ in range(max(1, m - rng.randint(1, min(40, m))))]
                p = (body + [0] * m)[:m]
                t = [sym() for _ in range(rng.randint(0, 30))] + body + [sym() for _ in range(rng.randint(0, 3))]
            elif style == 3:    # same but the tail is a non-zero symbol; text begins inside the pattern
                body = [sym() for _ in range(max(1, m - rng.randint(1, min(40, m))))]
                p = ([1] * m + body)[-m:]
                t = body + [sym() for _ in range(rng.randint(0, 60))]
            elif style == 4:    # low complexity
                t = [rng.choice([0, 0, 0, 1]) for _ in range(m + rng.randint(0, 100))]
                p = [rng.choice([0, 0, 1]) for _ in range(m)]
            else:               # equal strings / one substitution
                p = [sym() for _ in range(m)]
                t = list(p)
                if m > 1:
                    t[rng.randrange(m)] = sym()
            if len(t) < len(p):
                t = t + [sym() for _ in range(len(p) - len(t))]
            out.append((t, p))
    # texts with several full or partial occurrences of the pattern: a noisy full copy early, a long unrelated stretch,
    # then an exact prefix (or a second, better or worse copy): the best score so far and the per-block scores evolve
    # independently over many columns (any band / early-termination logic is exercised here)
    for m in ([70, 129, 200, 320] if tier == "quick" else [65, 70, 129, 130, 192, 200, 257, 320, 513, 700, 1100]):
        for r in range(3 if tier == "quick" else 10):
            sigma = rng.choice([4, 13])
            p = [rng.randrange(sigma) for _ in range(m)]
            def noisy(q, k):
                q = list(q)
                for _ in range(k):
                    i = rng.randrange(len(q))
                    op = rng.random()
                    if op < 0.5:
                        q[i] = rng.randrange(sigma)
                    elif op < 0.75 and len(q) > 1:
                        del q[i]
                    else:
                        q.insert(i, rng.randrange(sigma))
                return q
            junk = lambda n: [rng.randrange(sigma) for _ in range(n)]
            parts = [junk(rng.randint(0, 40)), noisy(p, rng.randint(1, max(2, m // 5))), junk(rng.randint(64, 200))]
            kind = r % 3
            if kind == 0:
                parts.append(p[:rng.randint(m // 4, max(m // 4 + 1, m - 1))])          # exact prefix only
            elif kind == 1:
                parts.append(noisy(p, rng.randint(0, 3)))                               # a better second copy
            else:
                parts.append(noisy(p[:m // 2], 2) + junk(10) + noisy(p[m // 2:], 2))   # a broken second copy
            parts.append(junk(rng.randint(0, 90)))
            t = [x for part in parts for x in part]
            out.append((t, p))
    return out


def run(tier, seed, which="C11"):
    V = kv.Verdict("C11", tier, seed)
    wd = kv.workdir("c11")
    rng = random.Random(seed)
    mcs = ["q", "cap"] if tier == "quick" else ["t7", "cap", "t"]

    def mc(c):
        return c, kv.run_tlc("MC_Myers", "MC_Myers_%s.cfg" % c, wd, workers=8, timeout=3000, name=c, heap="6g")
    for c, r in kv.pmap(mc, mcs + ["twin"], workers=3):
        if c == "twin":
            if r.ok:
                raise kv.Broken("MC_Myers twin (wrong padding) not rejected")
        else:
            V.add_tlc(r)
            if not r.ok:
                raise kv.Broken("MC_Myers %s fails: %s" % (c, r.errors[:2]))
    pairs = pairs_exhaustive(5 if tier == "quick" else 7, 2) + pairs_exhaustive(3 if tier == "quick" else 5, 3)
    ex = len(pairs)
    pairs += seeded_pairs(rng, tier)
    # cost-balanced chunks (cells = n*m)
    chunks, cur, cost = [], [], 0
    for t, p in pairs:
        c = len(t) * min(len(p), 1024) + 200
        if cur and (cost + c > 600000 or len(cur) >= 2500):
            chunks.append(cur)
            cur, cost = [], 0
        cur.append((t, p))
        cost += c
    if cur:
        chunks.append(cur)
    builds = ["rel", "noavx"]
    for b in builds:
        kv.build(b)

    def do(args):
        ci, b = args
        f = os.path.join(wd, "pairs_%d.txt" % ci)
        if b == builds[0]:
            with open(f, "w") as fh:
                for t, p in chunks[ci]:
                    fh.write(",".join(map(str, t)) + "\n" + ",".join(map(str, p)) + "\n")
        tp, rc, err = kv.run_kvdrive("bpm %s 3\n" % f, wd, "bpm_%s_%d" % (b, ci), variant=b, timeout=300)
        res = kv.run_tlc("MyersTrace", "MyersTrace.cfg", wd, trace=tp, timeout=3000, heap="3g", name="mt_%s_%d" % (b, ci))
        return ci, b, tp, rc, err, res

    # write files first (rel), then both builds
    jobs = [(ci, builds[0]) for ci in range(len(chunks))]
    r1 = kv.pmap(do, jobs, workers=12)
    r2 = kv.pmap(do, [(ci, builds[1]) for ci in range(len(chunks))], workers=12) if tier != "quick" else kv.pmap(do, [(ci, builds[1]) for ci in range(0, len(chunks), 3)], workers=12)
    for ci, b, tp, rc, err, res in r1 + r2:
        V.add_tlc(res)
        ev = kv.read_trace(tp)
        for (ln, sid, items) in res.fails:
            e = ev[ln - 1]
            rp = kv.save_replay("C11", "chunk%d_%s" % (ci, b), [tp, os.path.join(wd, "pairs_%d.txt" % ci)])
            V.violation("build %s pair %d (n=%d m=%d): %s; block=%s w64=%s w256=%s" % (b, e.get("k", -1), e.get("n", -1), e.get("m", -1), ",".join(sorted(items)),
                        e.get("block"), e.get("w64"), e.get("w256")), rp, dict(what=sorted(items), m=e.get("m"), n=e.get("n"), build=b))
        if rc != 0 or not res.accepted:
            V.violation("build %s chunk %d: harness rc=%s accepted=%s %s" % (b, ci, rc, res.accepted, err[-200:]), tp, dict(kind="unexplained"))
        else:
            V.traces += len(chunks[ci])
        if b == builds[0]:
            for t, p in chunks[ci]:
                V.case((tuple(t), tuple(p)), nontrivial=len(p) >= 2 and t != p)
    V.sample(dict(t=pairs[ex][0][:40], p=pairs[ex][1][:40], n=len(pairs[ex][0]), m=len(pairs[ex][1])))
    return V.finish(rule="all (text, pattern) pairs with |p| <= |t| over 2 letters (length <= %d) and 3 letters (length <= %d), plus seeded pairs over 2/4/13-letter and skewed alphabets: "
                    "unrelated, planted near-matches, text ending inside the pattern with a symbol-0 tail, low complexity, near-identical; pattern lengths around every 64-symbol block boundary "
                    "(and the 1024 cap in thorough); builds with and without AVX2; non-trivial = pattern >= 2 symbols and text != pattern"
                    % ((5, 3) if tier == "quick" else (7, 5)),
                    assumptions=["exact integer oracle (Myers!SemiGlobal) evaluated by TLC on the logged inputs"])
