"""C12: duplicate input sequences receive identical rows (fewer than 100 sequences, containment premise evaluated by the spec)."""
import random, json
import kv, gen, rel


def run(tier, seed, which="C12"):
    V = kv.Verdict("C12", tier, seed)
    wd = kv.workdir("c12")
    rng = random.Random(seed)
    groups = []
    n_cases = 60 if tier == "quick" else 1500
    for i in range(n_cases):
        kind = rng.choice(["dna", "rna", "protein"])
        alpha = {"dna": gen.DNA, "rna": gen.RNA, "protein": gen.AA}[kind]
        n = rng.choice([2, 3, 5, 8, 12, 20, 40, 70, 99]) if i % 3 else rng.randint(2, 99)
        L = rng.randint(8, 90)
        ndist = max(1, n - rng.randint(1, min(n - 1, 12)))
        base = gen.family(rng, ndist, L, alpha, sub=rng.choice([0.05, 0.15, 0.3]), indel=rng.choice([0.0, 0.04, 0.1]))
        if kind == "protein":
            base = [s if sum(c in "DEFHIKLMPQRSVWY" for c in s) * 4 >= len(s) else s + "LKEF" for s in base]
        seqs = list(base)
        # planted duplicates: several duplicated sequences, multiplicity 2..10
        while len(seqs) < n:
            seqs.append(rng.choice(base[:max(1, len(base) // 3)]))
        if i % 10 == 7 and n > 3:
            # a case that violates the premise on purpose: a proper substring of a duplicated sequence (must be skipped by the spec)
            d = [s for s in set(seqs) if seqs.count(s) > 1]
            if d and len(d[0]) > 6:
                seqs[-1] = d[0][2:-2] if seqs.count(seqs[-1]) != 2 else seqs[-1]
        rng.shuffle(seqs)
        ty = rng.choice(gen.TYPES_PROT if kind == "protein" else gen.TYPES_NUC)
        groups.append(dict(gid="dup%d" % i, rel="duprows", prop="C12",
                           members=[dict(names=gen.names(rng, n), seqs=seqs, type=ty, threads=rng.choice([1, 4]), dump_in=True)],
                           key=json.dumps([seqs, ty]), nontrivial=len(set(seqs)) < len(seqs) and len(set(seqs)) > 1))
    V.sample(dict(group="dup0", seqs=groups[0]["members"][0]["seqs"][:6]))
    rel.run_groups(V, groups, wd, per_batch=6, timeout=600)
    return V.finish(rule="inputs of 2..99 sequences with planted duplicates (multiplicity 2..10, several duplicated sequences, any positions), all types, threads 1 and 4; "
                    "premise (no other sequence contains or is contained in a duplicated one, on the guide-tree alphabet) evaluated by Relate!DupPremise on the object as read, "
                    "cases failing it are skipped (some are planted); relation: equal ungapped rows have equal gapped rows",
                    assumptions=["the guide-tree alphabet of the spec (Alphabet.tla) equals the code's tables (checked by AlphabetTrace in C14)"])
