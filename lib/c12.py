"""C12: duplicate input sequences receive identical rows (fewer than 100 sequences, containment premise evaluated by the spec)."""
import random, json
import kv, gen, rel


def run(tier, seed, which="C12"):
    V = kv.Verdict("C12", tier, seed)
    wd = kv.workdir("c12")
    rng = random.Random(seed)
    for cfg, twin in ((("MC_GuideTree_q.cfg", False), ("MC_GuideTree_twin_q.cfg", True)) if tier == "quick" else (("MC_GuideTree.cfg", False), ("MC_GuideTree_twin_q.cfg", True))):
        r = kv.run_tlc("MC_GuideTree", cfg, wd, workers=8, timeout=3000, heap="6g", name=cfg)
        if twin:
            if r.ok:
                raise kv.Broken("MC_GuideTree twin (epsilon larger than the separation) was not rejected")
        else:
            V.add_tlc(r)
            if not r.ok:
                raise kv.Broken("MC_GuideTree: copies do not form a clade: %s" % r.out[-600:])
    kv.mc_aligner(V, wd, "c12", tier)
    groups = []
    n_cases = 60 if tier == "quick" else 1500
    for i in range(n_cases):
        kind = rng.choice(["dna", "rna", "protein"])
        alpha = {"dna": gen.DNA, "rna": gen.RNA, "protein": gen.AA}[kind]
        n = rng.choice([2, 3, 5, 8, 12, 20, 40, 70, 99]) if i % 3 else rng.randint(2, 99)
        L = rng.randint(8, 90)
        ndist = max(1, n - rng.randint(1, min(n - 1, 12)))
        base = gen.family(rng, ndist, L, alpha, sub=rng.choice([0.05, 0.15, 0.3]), indel=rng.choice([0.0, 0.04, 0.1]))
        if kind == "protein":
            base = [s if sum(c in "DEFHIKLMPQRSVWY" for c in s) * 4 >= len(s) else s + "LKEF" for s in base]
        seqs = list(base)
        # planted duplicates: several duplicated sequences, multiplicity 2..10
        while len(seqs) < n:
            seqs.append(rng.choice(base[:max(1, len(base) // 3)]))
        if i % 10 == 7 and n > 3:
            # a case that violates the premise on purpose: a proper substring of a duplicated sequence (must be skipped by the spec)
            d = [s for s in set(seqs) if seqs.count(s) > 1]
            if d and len(d[0]) > 6:
                seqs[-1] = d[0][2:-2] if seqs.count(seqs[-1]) != 2 else seqs[-1]
        rng.shuffle(seqs)
        ty = rng.choice(gen.TYPES_PROT if kind == "protein" else gen.TYPES_NUC)
        groups.append(dict(gid="dup%d" % i, rel="duprows", prop="C12",
                           members=[dict(names=gen.names(rng, n), seqs=seqs, type=ty, threads=rng.choice([1, 4]), dump_in=True)],
                           key=json.dumps([seqs, ty]), nontrivial=len(set(seqs)) < len(seqs) and len(set(seqs)) > 1))
    # a long duplicated sequence among SHORT fragments that are one edit away from one of its substrings (so the premise
    # holds: nothing contains anything): whatever the length ratio, the copies are each other's nearest neighbours
    for j in range(6 if tier == "quick" else 60):
        kind = ["protein", "dna"][j % 2]
        alpha = gen.AA if kind == "protein" else gen.DNA
        L = rng.choice([340, 400, 480])
        d = gen.rand_seq(rng, alpha, L) + ("LKEF" if kind == "protein" else "")
        frags = []
        # pairs of fragments around one residue of d: the same letter inserted after it in one, before it in the other
        # (d: ..N K D.., fragments ..N K x D.. and ..N x K D..): each pulls a copy of d towards another gap position
        for _ in range(rng.randint(1, 2)):
            pos = rng.randrange(80, L - 80)
            x = rng.choice([c for c in alpha if c not in (d[pos - 1], d[pos], d[pos + 1])])
            for before in (False, True):
                lo = pos - rng.randint(30, 50)
                hi = pos + rng.randint(30, 50)
                cut = pos if before else pos + 1
                frags.append(d[lo:cut] + x + d[cut:hi])
        seqs = [d] * rng.choice([2, 3]) + frags
        rng.shuffle(seqs)
        groups.append(dict(gid="frag%d" % j, rel="duprows", prop="C12",
                           members=[dict(names=gen.names(rng, len(seqs)), seqs=seqs, type=5, threads=rng.choice([1, 4]), dump_in=True)],
                           key=json.dumps([seqs, 5]), nontrivial=True))
    # duplicated sequences of 500 residues and more (the parallel Hirschberg controller aligns the copies), among relatives
    for j, L in enumerate([501, 640, 777] if tier == "quick" else [500, 501, 502, 640, 777, 999, 1000, 1001, 1503, 2001]):
        for kind in (("dna", "protein") if tier != "quick" else (("dna",) if j != 1 else ("protein",))):
            alpha = gen.DNA if kind == "dna" else gen.AA
            n = rng.randint(4, 6)
            base = gen.family(rng, n - 2, L, alpha, sub=0.15, indel=0.02)
            if kind == "protein":
                base = [x + "LKEF" for x in base]
            seqs = base + [base[0], base[0]] if j % 2 else base + [base[0], base[1]]
            rng.shuffle(seqs)
            groups.append(dict(gid="long%d%s" % (L, kind[0]), rel="duprows", prop="C12",
                               members=[dict(names=gen.names(rng, len(seqs)), seqs=seqs, type=5, threads=rng.choice([2, 4]), dump_in=True)],
                               key=json.dumps([seqs, 5]), nontrivial=True))
    # long duplicated sequences with a partner at a large, exactly known distance: d over three letters, the partner is d with
    # k positions replaced by a fourth letter that does not occur in d (every such position costs exactly one edit)
    for j, (L, k) in enumerate([(300, 256), (300, 255), (600, 512), (280, 256)] if tier == "quick" else
                               [(300, 256), (300, 255), (300, 257), (600, 512), (280, 256), (1100, 1024), (520, 256), (800, 768)]):
        for kind in ("dna", "protein"):
            letters, other = ("ACG", "T") if kind == "dna" else ("LKE", "W")
            d = gen.rand_seq(rng, letters, L)
            pos = set(rng.sample(range(L), k))
            x = "".join(other if i in pos else c for i, c in enumerate(d))
            far = gen.rand_seq(rng, letters + other, L - 7)
            for order in (["d1", "x", "d2", "far"], ["x", "d1", "far", "d2"], ["d1", "d2", "x", "far"]):
                seqmap = dict(d1=d, d2=d, x=x, far=far)
                names = {"d1": "dupA_1", "x": "dupA_1x" if order[0] == "d1" else "aaa", "d2": "dupA_2", "far": "zfar"}
                groups.append(dict(gid="far%d%s%s" % (j, kind[0], "".join(o[0] + o[-1] for o in order)), rel="duprows", prop="C12",
                                   members=[dict(names=[names[o] for o in order], seqs=[seqmap[o] for o in order], type=5, threads=2, dump_in=True)],
                                   key=json.dumps([d, x, order]), nontrivial=True))
    # indel-rich partners whose guide-tree distance to the duplicated sequence sits exactly on a byte boundary (255 / 256 / 257, 512):
    # the partner is mutated until a generator-side DP (inputs only, no expected result) reports the wanted distance
    def sg(t, p):
        # Myers' bit-vector algorithm on python integers (generator-side aid only): min over substrings of t of ed(., p)
        m = len(p)
        peq = {}
        for i, c in enumerate(p):
            peq[c] = peq.get(c, 0) | (1 << i)
        mask = (1 << m) - 1
        vp, vn, score, best = mask, 0, m, m
        hb = 1 << (m - 1)
        for c in t:
            eq = peq.get(c, 0)
            x = eq | vn
            d0 = ((((x & vp) + vp) & mask) ^ vp) | x
            hn = vp & d0
            hp = vn | (~(vp | d0) & mask)
            if hp & hb:
                score += 1
            if hn & hb:
                score -= 1
            xx = (hp << 1) & mask
            vn = xx & d0
            vp = ((hn << 1) & mask) | (~(xx | d0) & mask)
            best = min(best, score)
        return best

    def at_distance(d, alpha, want):
        x = gen.mutate(rng, d, alpha, sub=0.35, indel=0.1, maxindel=5)[:len(d) - rng.randint(0, 9)]
        for _ in range(400):
            cur = sg(d, x) if len(x) <= len(d) else sg(x, d)
            if cur == want:
                return x
            xs = list(x)
            if cur < want:
                for _k in range(max(1, (want - cur) // 2)):
                    i = rng.randrange(len(xs))
                    xs[i] = rng.choice([c for c in alpha if c != xs[i]])
            else:
                for _k in range(max(1, (cur - want) // 2)):
                    i = rng.randrange(min(len(xs), len(d)))
                    xs[i] = d[i]
            x = "".join(xs)
        return None
    RED = {}
    for k_, grp in enumerate(["AST", "C", "DNB", "EQZ", "FY", "G", "H", "IV", "KR", "LM", "P", "W", "X"]):
        for ch in grp:
            RED[ch] = chr(97 + k_)
    sg0 = sg
    sg = lambda t, p: sg0([RED[c] for c in t], [RED[c] for c in p])   # noqa: E731  distance as the guide tree sees it
    for j, want in enumerate([256, 256, 256, 256, 255, 257] if tier == "quick" else [256, 256, 256, 256, 256, 255, 257, 512, 512, 511, 256, 256]):
        L = int(want * [1.6, 2.5, 2.0][j % 3]) + rng.randint(0, 40)
        d = gen.rand_seq(rng, gen.AA, L)
        xs = [at_distance(d, gen.AA, want) for _ in range(2)]
        if any(x is None for x in xs):
            continue
        names = ["dupA_1", "far0", "dupA_2", "far1"] if j % 2 else ["dupA_1", "dupA_1b", "dupA_2", "dupA_2b"]
        seqs = [d, xs[0], d, xs[1]]
        groups.append(dict(gid="bnd%d_%d" % (want, j), rel="duprows", prop="C12", members=[dict(names=names, seqs=seqs, type=rng.choice([3, 4, 5]), threads=rng.choice([1, 4]), dump_in=True)],
                           key=json.dumps(seqs), nontrivial=True))
    V.sample(dict(group="dup0", seqs=groups[0]["members"][0]["seqs"][:6]))
    rel.run_groups(V, groups, wd, per_batch=6, timeout=600, guidetree=True)
    return V.finish(rule="inputs of 2..99 sequences with planted duplicates (multiplicity 2..10, several duplicated sequences, any positions), all types, threads 1 and 4; "
                    "premise (no other sequence contains or is contained in a duplicated one, on the guide-tree alphabet) evaluated by Relate!DupPremise on the object as read, "
                    "cases failing it are skipped (some are planted); relation: equal ungapped rows have equal gapped rows",
                    assumptions=["the guide-tree alphabet of the spec (Alphabet.tla) equals the code's tables (checked by AlphabetTrace in C14)"])
