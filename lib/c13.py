"""C13: nucleotide and protein inputs are recognised from their residue letters (Biotype.tla; MC over compositions; BiotypeTrace on real reads)."""
import os, random, json, itertools
import kv, gen, present

CLS = dict(S="ACGTN", U="U", Q="EFILPQ", R="DHKMRSVWY", O="BJOXZ")


def concretise(rng, vec, nseq=None):
    letters = []
    for k, n in vec.items():
        letters += [rng.choice(CLS[k]) for _ in range(n)]
    rng.shuffle(letters)
    letters = [c.lower() if rng.random() < 0.3 else c for c in letters]
    total = len(letters)
    nseq = nseq or max(2, min(total, rng.choice([2, 2, 3, 5])))
    nseq = min(nseq, total) if total >= 2 else 2
    cuts = sorted(rng.sample(range(1, total), nseq - 1)) if total > nseq else list(range(1, nseq))
    seqs, prev = [], 0
    for c in cuts + [total]:
        seqs.append("".join(letters[prev:c]))
        prev = c
    while len(seqs) < 2:
        seqs.append("")
    return seqs


def vectors(maxtotal, premise):
    out = []
    if premise == "a":
        for s in range(0, maxtotal + 1):
            for u in range(0, maxtotal + 1 - s):
                if s + u >= 2:
                    out.append(dict(S=s, U=u, Q=0, R=0, O=0))
    else:
        rng = range(0, maxtotal + 1)
        for s, u, q, r, o in itertools.product(rng, rng, rng, rng, rng):
            t = s + u + q + r + o
            if 2 <= t <= maxtotal and 4 * q >= t:
                out.append(dict(S=s, U=u, Q=q, R=r, O=o))
    return out


def run(tier, seed, which="C13"):
    V = kv.Verdict("C13", tier, seed)
    wd = kv.workdir("c13")
    rng = random.Random(seed)
    for cfg, twin in (("MC_Biotype.cfg", False), ("MC_Biotype_twin.cfg", True)):
        r = kv.run_tlc("MC_Biotype", cfg, wd, workers=8, timeout=1800, name=cfg)
        if twin:
            if r.ok:
                raise kv.Broken("MC_Biotype twin did not show the known U region")
        else:
            V.add_tlc(r)
            if not r.ok:
                raise kv.Broken("histogram rule fails the requirement outside the known region: %s" % r.out[-800:])
    cases = []   # dict(id, grp, seqs, names, mode, extra)
    mt = 6 if tier == "quick" else 9
    vecs = vectors(12 if tier != "quick" else 9, "a") + vectors(mt, "b")
    if tier == "quick":
        vecs = vecs[::3]
    for vi, v in enumerate(vecs):
        seqs = concretise(rng, v)
        seqs = [s for s in seqs if s] if sum(1 for s in seqs if s) >= 2 else seqs
        if sum(1 for s in seqs if s) < 2:
            continue
        cases.append(dict(id="v%d" % vi, grp="v%d" % vi, seqs=seqs, names=gen.names(rng, len(seqs)), mode=["fasta", "afa", "clu", "msf", "array"][vi % 5], vec=v))
    # large compositions, with reorderings and renamings in one group
    nl = 12 if tier == "quick" else 150
    for i in range(nl):
        total = rng.choice([40, 200, 1000])
        if i % 2 == 0:
            u = rng.randint(0, total)
            v = dict(S=total - u, U=u, Q=0, R=0, O=0)
        else:
            q = rng.randint((total + 3) // 4, total)
            rest = total - q
            s = rng.randint(0, rest)
            r_ = rng.randint(0, rest - s)
            v = dict(S=s, U=0 if i % 4 == 1 else rng.randint(0, rest - s - r_), Q=q, R=r_, O=0)
            v["O"] = total - sum(v.values())
        seqs = concretise(rng, v, nseq=rng.choice([2, 5, 20]))
        seqs = [s for s in seqs if s]
        if len(seqs) < 2:
            continue
        names = gen.names(rng, len(seqs))
        for k in range(3):
            order = list(range(len(seqs)))
            if k:
                rng.shuffle(order)
            cases.append(dict(id="L%d_%d" % (i, k), grp="L%d" % i, seqs=[seqs[j] for j in order], names=[names[j] for j in order] if k < 2 else gen.names(rng, len(seqs), "wild"),
                              mode=["fasta", "afa", "clu"][k], vec=v))
    # gap-heavy presentations of nucleotide alignments (ratio gaps:residues up to 20:1)
    for i, ratio in enumerate([1, 5, 10, 20]):
        seqs = gen.family(rng, 4, 30, gen.DNA if i % 2 else gen.RNA, sub=0.1, indel=0.0)
        cases.append(dict(id="gappy%d" % i, grp="gappy%d" % i, seqs=seqs, names=gen.names(rng, 4), mode="afa", pad=ratio, vec=dict(kind="nucleotide alignment, %d gap characters per residue" % ratio)))
    # the names are not residues: very long descriptive names spelled with the letters of the other alphabet (longer than any
    # fixed line buffer a reader might use) must not influence the decision
    for i, L in enumerate([300, 1030, 1100, 3000] if tier == "quick" else [255, 300, 1022, 1023, 1024, 1030, 1100, 2047, 2050, 3000, 9000]):
        nuc = gen.family(rng, 4, 40, gen.DNA if i % 2 else gen.RNA, sub=0.1, indel=0.02)
        pname = ["".join(rng.choice("ELVISPQRKHDWFMY_") for _ in range(L)) + "_%d" % j for j in range(4)]
        cases.append(dict(id="lname_nuc%d" % i, grp="lname_nuc%d" % i, seqs=nuc, names=pname, mode="fasta", vec=dict(kind="nucleotides, names of %d protein letters" % L)))
        prot = [x + "LKEF" for x in gen.family(rng, 4, 30, gen.AA, sub=0.2, indel=0.02)]
        nname = ["".join(rng.choice("GATTACACGTN_") for _ in range(L)) + "_%d" % j for j in range(4)]
        cases.append(dict(id="lname_prot%d" % i, grp="lname_prot%d" % i, seqs=prot, names=nname, mode="fasta", vec=dict(kind="protein, names of %d nucleotide letters" % L)))
    # long records whose composition changes along the record: the first thousand residues look like the other kind
    for i, (head, tail) in enumerate([(1000, 1500), (1100, 900)] if tier == "quick" else [(600, 900), (1000, 1500), (1100, 900), (2100, 2500), (4100, 5000)]):
        # protein: nucleotide-looking start, then clearly protein (premise b: more than a quarter protein-only letters overall)
        prot = [gen.rand_seq(rng, "ACGT", head) + gen.rand_seq(rng, "EFILPQ" * 3 + "DHKMRSVWY", tail) for _ in range(3)]
        cases.append(dict(id="shift_prot%d" % i, grp="shift_prot%d" % i, seqs=prot, names=gen.names(rng, 3), mode="fasta", vec=dict(kind="protein, first %d residues ACGT" % head)))
    # stray non-ASCII bytes among the residues (Latin-1 / UTF-8 debris, exotic masking symbols): they are not letters, so
    # they are neither residues nor evidence; chosen so that, with the top bit dropped, they would spell letters of the other kind
    for i in range(4 if tier == "quick" else 24):
        if i % 2 == 0:
            base = gen.family(rng, 4, 60, gen.DNA if i % 4 else gen.RNA, sub=0.1, indel=0.02)
            junk = [chr(0x80 | ord(c)) for c in "KWDEFILPQ"]
        else:
            base = [x + "LKEFLKEF" for x in gen.family(rng, 4, 40, "GATSCEFILPQ", sub=0.1, indel=0.02)]
            junk = [chr(0x80 | ord(c)) for c in "Uu"]
        frac = rng.choice([0.2, 0.5, 1.0])
        noisy = ["".join(c + (rng.choice(junk) if rng.random() < frac else "") for c in x) for x in base]
        cases.append(dict(id="stray%d" % i, grp="stray%d" % i, seqs=base, rows_as_written=noisy, names=gen.names(rng, 4), mode="fasta",
                          vec=dict(kind="%s residues with stray bytes >= 0x80 (%.0f per 100 residues)" % ("nucleotide" if i % 2 == 0 else "protein", 100 * frac))))
    # more than 512 records: the composition of the file as a whole decides, wherever the nucleotide-looking records sit
    prot = [gen.rand_seq(rng, gen.AA, 25) for _ in range(515)]
    pep = [gen.rand_seq(rng, "ACGTN", 25) for _ in range(40)]
    for k, order in enumerate([pep + prot, prot + pep, prot[:300] + pep + prot[300:]]):
        cases.append(dict(id="many%d" % k, grp="many", seqs=order, names=["r%d" % j for j in range(len(order))], mode="fasta", vec=dict(kind="555 records, 40 of them ACGTN only")))

    batches = [cases[i:i + 120] for i in range(0, len(cases), 120)]

    def do(bi):
        bwd = os.path.join(wd, "b%d" % bi)
        os.makedirs(bwd, exist_ok=True)
        lines = ["level 1"]
        for k, c in enumerate(batches[bi]):
            lines.append("note CASE %d" % k)
            pad = c.get("pad", 0)
            rows = c.get("rows_as_written", c["seqs"])
            if c["mode"] in ("afa", "clu", "msf"):
                # an aligned presentation: pad rows to one width with gap characters (and heavier padding if asked)
                W = max(len(s) for s in rows) * (1 + pad) + 1
                rows2 = []
                for s in rows:
                    if pad:
                        s = "".join(ch + "-" * pad for ch in s)
                    rows2.append(s + "-" * (W - len(s)))
                rows = rows2
            if c["mode"] == "array":
                arr = os.path.join(bwd, "c%d.arr" % k)
                open(arr, "w").write("".join(",".join(str(ord(ch)) for ch in s) + "\n" for s in c["seqs"]))
                lines.append("kalign %s 1 5 -1 -1 -1 bt" % arr)
            else:
                p = os.path.join(bwd, "c%d.in" % k)
                if c["mode"] in ("fasta", "afa"):
                    present.write(p, present.to_fasta(c["names"], rows))
                elif c["mode"] == "clu":
                    present.write(p, present.to_clustal(c["names"], rows))
                else:
                    present.write(p, present.to_msf(c["names"], rows))
                lines += ["read 0 %s" % p, "dump 0 bt digest", "free 0"]
        tp, rc, err = kv.run_kvdrive("\n".join(lines) + "\n", bwd, "t", timeout=300)
        ev = kv.read_trace(tp)
        out = []
        for e in ev:
            if e.get("e") == "Note" and e["text"].startswith("CASE "):
                c = batches[bi][int(e["text"][5:])]
                out.append(dict(e="Case", id=c["id"], grp=c["grp"], seqs=[kv.asc(s) for s in c["seqs"]]))
            elif e.get("e") == "Obj" and e.get("tag") == "in":
                continue
            else:
                out.append(e)
        kv.write_ndjson(tp, out)
        res = kv.run_tlc("BiotypeTrace", "BiotypeTrace.cfg", bwd, trace=tp, timeout=900, heap="3g")
        return bi, tp, rc, err, res

    for bi, tp, rc, err, res in kv.pmap(do, range(len(batches)), workers=12):
        V.add_tlc(res)
        byid = {c["id"]: c for c in batches[bi]}
        info = {}
        for line in res.prints:
            if line.startswith('<<"KVINFO"'):
                parts = line.split('"')
                if len(parts) > 3:
                    info[parts[3]] = line
        for c in batches[bi]:
            V.case(json.dumps([sorted(c["seqs"]), c["mode"]]), True)
        for (ln, cid, items) in res.fails:
            c = byid.get(cid, {})
            inf = info.get(cid, "")
            model = "dna" if '"model",1' in inf else ("protein" if '"model",0' in inf else "undecided")
            sig = dict(what=sorted(items), mode=c.get("mode"), model_of_pinned_rule=model, has_U="TRUE" in inf.split('"hasU"')[-1] if "hasU" in inf else False)
            rp = kv.save_replay("C13", "b%d" % bi, [tp, os.path.join(wd, "b%d" % bi, "t.kv")])
            V.violation("case %s (%s, composition %s): %s" % (cid, c.get("mode"), json.dumps(c.get("vec")), ",".join(sorted(items))), rp, sig)
        if rc != 0 or not res.accepted:
            V.violation("batch %d: harness rc=%s accepted=%s %s" % (bi, rc, res.accepted, err[-300:].replace("\n", " ")), tp, dict(kind="unexplained"))
        else:
            V.traces += len(batches[bi])
    V.sample(dict(case=cases[0]["id"], seqs=cases[0]["seqs"], mode=cases[0]["mode"], composition=cases[0]["vec"]))
    return V.finish(rule="every class-count vector (shared ACGTN / U / protein-only EFILPQ / IUPAC-and-amino letters / other letters) meeting premise (a) up to %d residues or premise (b) up to %d residues, "
                    "concretised (random letters per class, both cases, cut into sequences) and presented as FASTA, gap-padded aligned FASTA, Clustal, MSF or through kalign(); large compositions with "
                    "reordered and renamed copies in one group; gap-heavy nucleotide alignments; inputs of more than 512 records" % ((12, 9) if tier != "quick" else (9, 6)),
                    assumptions=["protein-only letters = amino-acid letters that are not IUPAC nucleotide codes (E F I L P Q)"], exhaustive=False)
