"""C14: letter case and T/U spelling do not influence the alignment.
Alphabet.tla lemmas + real tables (AlphabetTrace) + relational groups (gap pattern equal, letters kept)."""
import os, random, itertools
import kv, gen, rel


def table_check(V, wd):
    tp, rc, err = kv.run_kvdrive("alphabet\n", wd, "alphabet", timeout=60)
    res = kv.run_tlc("AlphabetTrace", "AlphabetTrace.cfg", wd, trace=tp)
    V.add_tlc(res)
    for (ln, sid, items) in res.fails:
        mine = sorted(x for x in items if x.startswith("C14"))
        if mine:
            V.violation("alphabet table %d: %s" % (ln, ",".join(mine)), kv.save_replay("C14", "alphabet", [tp]), dict(what=mine, kind="table"))
    for (ln, sid, items) in res.divs:
        V.divergence("alphabet table line %d: %s" % (ln, ",".join(sorted(items))))
    if not res.accepted or rc != 0:
        V.violation("alphabet dump not explained (rc=%s)" % rc, tp, dict(kind="unexplained"))
    V.traces += 1
    V.evaluations += 5 * 128


def respell(seqs, mask_bits, mode):
    """apply a bit mask over the concatenated residues: case flip or T<->U"""
    out = []
    k = 0
    for s in seqs:
        t = []
        for c in s:
            bit = (mask_bits >> k) & 1
            k += 1
            if mode == "case":
                t.append(c.lower() if bit else c.upper())
            else:
                if bit and c in "TtUu":
                    c = {"T": "U", "t": "u", "U": "T", "u": "t"}[c]
                t.append(c)
        out.append("".join(t))
    return out


def run(tier, seed, which="C14"):
    V = kv.Verdict("C14", tier, seed)
    wd = kv.workdir("c14")
    rng = random.Random(seed)
    table_check(V, wd)
    groups = []
    # exhaustive masks on tiny inputs
    tiny = [(["ACGT", "AGT"], 0), (["GATTA", "GTTA"], 2), (["LKEF", "LEF", "KEL"], 3)]
    if tier != "quick":
        tiny += [(["ACGTT", "AGT", "CT"], 1), (["WLKEF", "LEF", "KE"], 4), (["ACGUT", "AUGT"], 5)]
    for ti, (seqs, ty) in enumerate(tiny):
        k = sum(len(s) for s in seqs)
        kk = min(k, 7 if tier == "quick" else 10)
        members = []
        for mask in range(1 << kk):
            members.append(dict(names=["a", "b", "c"][:len(seqs)], seqs=respell(seqs, mask, "case"), type=ty, threads=1, dump_in=True))
        groups.append(dict(gid="case_all_%d" % ti, rel="pattern", prop="C14", members=members, key="caseall:%s" % seqs))
        if not set("".join(seqs)) - set("ACGTU"):
            nt = sum(c in "TU" for s in seqs for c in s)
            members = [dict(names=["a", "b", "c"][:len(seqs)], seqs=respell(seqs, m, "tu"), type=ty, threads=1, dump_in=True) for m in range(1 << k)
                       if all(((m >> i) & 1) == 0 or "".join(seqs)[i] in "TU" for i in range(k))]
            groups.append(dict(gid="tu_all_%d" % ti, rel="pattern", prop="C14", members=members, key="tuall:%s" % seqs))
    # seeded masks on generated inputs of every type
    n = 25 if tier == "quick" else 400
    for i in range(n):
        sc = gen.alignment_scenario(rng, nmax=9, lmax=90)
        base = [s.upper() for s in sc["seqs"]]
        variants = [base]
        for v in range(3 if tier == "quick" else 6):
            style = rng.choice(["letter", "seq", "all", "random"])
            if style == "all":
                vs = [s.lower() for s in base]
            elif style == "seq":
                vs = [s.lower() if rng.random() < 0.5 else s for s in base]
            elif style == "letter":
                L = set(rng.sample("ACDEFGHIKLMNPQRSTUVWY", 5))
                vs = ["".join(c.lower() if c in L else c for c in s) for s in base]
            else:
                vs = [gen.case_mask(rng, s, 0.5) for s in base]
            if sc["kind"] != "protein" and rng.random() < 0.7:
                p = rng.random()
                vs = ["".join(({"T": "U", "U": "T", "t": "u", "u": "t"}[c] if c in "TUtu" and rng.random() < p else c) for c in s) for s in vs]
            variants.append(vs)
        members = [dict(names=sc["names"], seqs=v, type=sc["type"], gpo=sc["gpo"], gpe=sc["gpe"], tgpe=sc["tgpe"], threads=sc["threads"], dump_in=True) for v in variants]
        groups.append(dict(gid="mask_%d" % i, rel="pattern", prop="C14", members=members, key="mask:%s:%d" % (base, sc["type"]),
                           nontrivial=len(set(base)) > 1))
    # nucleotide inputs with IUPAC ambiguity codes (4-9 % of the residues), re-spelled by case: per letter, only the ambiguity codes,
    # whole file.  The kind of sequence kalign detects must not depend on the case of these letters either.
    for i in range(12 if tier == "quick" else 150):
        n = rng.randint(3, 7)
        L = rng.randint(40, 120)
        base = gen.family(rng, n, L, gen.DNA if i % 2 else gen.RNA, sub=0.1, indel=0.04)
        frac = rng.choice([0.04, 0.06, 0.08, 0.09])
        base = ["".join(rng.choice("RYKMSWBDHV") if rng.random() < frac else c for c in x) for x in base]
        variants = [base, [x.lower() for x in base],
                    ["".join(c.lower() if c in "RYKMSWBDHV" else c for c in x) for x in base],
                    ["".join(c.lower() if c in "ACGTU" else c for c in x) for x in base],
                    [gen.case_mask(rng, x, 0.5) for x in base]]
        ty = rng.choice([0, 1, 2, 5])
        members = [dict(names=["s%d" % j for j in range(n)], seqs=v, type=ty, threads=2, dump_in=True) for v in variants]
        groups.append(dict(gid="iupac_%d" % i, rel="pattern", prop="C14", members=members, key="iupac:%s:%d" % (base, ty)))
    # records that share one name and one length (the statement does not require distinct names): the spelling of the
    # residues must not decide the internal order either
    for i in range(40 if tier == "quick" else 600):
        kind = rng.choice(["dna", "dna", "protein"])
        alpha = gen.DNA if kind == "dna" else "DEFHIKLMPQRSVWY"
        n = rng.randint(3, 6)
        L = rng.randint(8, 30)
        base = gen.family(rng, n, L, alpha, sub=0.25, indel=0.0)
        # equal lengths, but give the aligner a reason to open gaps: rotate some sequences
        base = [b[k:] + b[:k] for b, k in zip(base, [rng.randint(0, 2) for _ in base])]
        variants = [base]
        for v in range(4):
            j = rng.randrange(n)
            vs = list(base)
            mode = rng.random()
            if mode < 0.4:
                vs[j] = vs[j].lower()
            elif mode < 0.7 and kind == "dna":
                vs[j] = vs[j].replace("T", "U", 1) if "T" in vs[j] else vs[j].lower()
            else:
                vs[j] = gen.case_mask(rng, vs[j], 0.5)
            variants.append(vs)
        ty = rng.choice(gen.TYPES_NUC if kind == "dna" else gen.TYPES_PROT)
        members = [dict(names=["read"] * n, seqs=v, type=ty, threads=1, dump_in=True) for v in variants]
        groups.append(dict(gid="samename_%d" % i, rel="pattern", prop="C14", members=members, key="samename:%s:%d" % (base, ty)))
    # long sequences (300..1200 residues): the spelling must not matter at any position
    for i, L in enumerate([350, 620] if tier == "quick" else [301, 350, 512, 620, 1030, 1200]):
        kind = ["dna", "protein"][i % 2]
        alpha = gen.DNA if kind == "dna" else gen.AA
        base = gen.family(rng, 3, L, alpha, sub=0.1, indel=0.02)
        if kind == "protein":
            base = [x + "LKEF" for x in base]
        variants = [base, [x.lower() for x in base], [gen.case_mask(rng, x, 0.5) for x in base],
                    [x[:len(x) // 2] + x[len(x) // 2:].lower() for x in base]]
        if kind == "dna":
            variants.append([x.replace("T", "U") for x in base])
        ty = rng.choice(gen.TYPES_NUC if kind == "dna" else gen.TYPES_PROT)
        members = [dict(names=["l%d" % j for j in range(3)], seqs=v, type=ty, threads=2, dump_in=True) for v in variants]
        groups.append(dict(gid="long_%d" % L, rel="pattern", prop="C14", members=members, key="long:%s:%d" % (base, ty)))
    # residues that spell words a format sniffer might look for (all letters are amino-acid codes), in upper, lower and mixed
    # case, on the first residue line and further down; protein and - where the letters allow - nucleotide inputs
    words = ["CLUSTAL", "CLUSTALW", "MSF", "MULTIPLE", "ALIGNMENT", "SEQUENCE", "NAME", "LEN", "CHECK", "WEIGHT", "KALIGN", "PILEUP", "TYPE", "FASTA", "STOCKHLM", "GAP"]
    for i in range(10 if tier == "quick" else 80):
        n = rng.randint(3, 6)
        L = rng.randint(30, 70)
        base = [x + "LKEF" for x in gen.family(rng, n, L, gen.AA, sub=0.15, indel=0.03)]
        ws = rng.sample(words, 3) if i else ["CLUSTAL", "MSF", "MULTIPLESEQUENCEALIGNMENT"]
        for w in ws:
            j = rng.randrange(n)
            k = rng.randint(0, max(0, len(base[j]) - 1)) if i % 2 else 0
            base[j] = base[j][:k] + w + base[j][k:]
        variants = [base, [x.lower() for x in base], [gen.case_mask(rng, x, 0.5) for x in base],
                    ["".join(c.lower() if c in "CLUSTAMF" else c for c in x) for x in base]]
        ty = rng.choice([3, 4, 5])
        members = [dict(names=["p%d" % j for j in range(n)], seqs=v, type=ty, threads=1, dump_in=True, width=rng.choice([60, 200])) for v in variants]
        groups.append(dict(gid="words_%d" % i, rel="pattern", prop="C14", members=members, key="words:%s:%d" % (base, ty)))
    V.sample(dict(group="case_all_0", base=tiny[0][0], variants="all 2^k case masks"))
    rel.run_groups(V, groups, wd, per_batch=4)
    return V.finish(rule="5 real code tables (128 entries each) checked for case/T-U blindness; groups = base input + re-spelled variants "
                    "(all 2^k case masks and all T/U masks on tiny inputs, seeded per-letter/per-sequence/whole-file/random masks on generated families of every type); "
                    "relation: identical gap pattern and output letters = that variant's input letters; distinct by base input and type",
                    assumptions=["biotype detection is the same for all variants of a group (checked indirectly: a different biotype changes the pattern or fails)"])
