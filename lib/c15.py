"""C15: written alignment files are self-consistent and correctly labelled. Writer.tla + WriterTrace on tokenised layouts."""
import os, random, json
import kv, gen, tokenize_out


def aligned_rows(rng, n, W, alpha, gapfrac=0.15):
    """a synthetic alignment of width W without all-gap columns (input for read + finalise)"""
    rows = [[rng.choice(alpha) for _ in range(W)] for _ in range(n)]
    for r in rows:
        # gap runs
        k = 0
        while k < W:
            if rng.random() < gapfrac / 3:
                ln = rng.randint(1, 8)
                for j in range(k, min(W, k + ln)):
                    r[j] = "-"
                k += ln
            k += 1
    for c in range(W):
        if all(r[c] == "-" for r in rows):
            rows[rng.randrange(n)][c] = rng.choice(alpha)
    for r in rows:
        if all(x == "-" for x in r):
            r[0] = rng.choice(alpha)
    # make sure at least one gap exists (else the file is not recognised as an alignment)
    if not any("-" in r for r in rows) and W > 1:
        rows[0][W - 1] = "-"
        if all(r[W - 1] == "-" for r in rows):
            rows[1][W - 1] = rng.choice(alpha)
    return ["".join(r) for r in rows]


def scenarios(rng, tier):
    S = []
    widths = [1, 59, 60, 61, 120, 180, 240, 1250] if tier == "quick" else [1, 2, 30, 59, 60, 61, 119, 120, 121, 179, 180, 181, 300, 600, 1200, 4100, 6000]
    for W in widths:
        for kind in ("prot", "nuc"):
            alpha = "DEFHIKLMPQRSVWYACGT" if kind == "prot" else "ACGT"
            n = rng.choice([2, 3, 5, 9])
            rows = aligned_rows(rng, n, W, alpha) if W > 1 else (["L", "-", "K"] if kind == "prot" else ["A", "-", "C"])
            if W == 1:
                n = 3
            style = rng.choice(["plain", "wild", "long"])
            if style == "long":
                names = ["".join(rng.choice("abcXYZ019_.|-") for _ in range(rng.choice([1, 17, 60, 128, 200, 253, 254, 255, 300]))) + "q%d" % i for i in range(n)]
                names = [("n" + x) if x[0] in "-.|" else x for x in names]
            else:
                names = gen.names(rng, n, style)
            if rng.random() < 0.4:
                rows = ["".join(c.lower() if rng.random() < 0.3 else c for c in r) for r in rows]
            S.append(dict(id="syn_%s_W%d" % (kind, W), mode="synthetic", names=names, rows=rows))
    # names at and beyond what the block writers keep (MSA_NAME_LEN = 256): header and rows must still agree
    for L in ([254, 255, 256, 300] if tier == "quick" else [250, 253, 254, 255, 256, 257, 300, 1000]):
        for kind in ("prot", "nuc"):
            alpha = "DEFHIKLMPQRSVWYACGT" if kind == "prot" else "ACGT"
            rows = aligned_rows(rng, 3, 70, alpha)
            names = ["".join(rng.choice("abcXYZ019_") for _ in range(L - 2)) + "q%d" % i for i in range(3)]
            S.append(dict(id="syn_%s_name%d" % (kind, L), mode="synthetic", names=names, rows=rows))
    # alignments produced by runs
    for i in range(10 if tier == "quick" else 150):
        sc = gen.alignment_scenario(rng, nmax=10, lmax=150)
        sc["id"] = "run%d" % i
        sc["mode"] = "run"
        S.append(sc)
    # inputs with records that have no residues (kalign drops them at run time): what is written afterwards must still be
    # well-formed, every remaining sequence in every block
    for i in range(6 if tier == "quick" else 60):
        sc = gen.alignment_scenario(rng, nmax=7, lmax=150)
        k = rng.choice([1, 2, 3])
        for _ in range(k):
            pos = rng.randrange(0, len(sc["seqs"])) if i % 3 else 0
            sc["seqs"].insert(pos, "")
            sc["names"].insert(pos, "empty%d_%d" % (i, len(sc["seqs"])))
        sc["id"] = "runempty%d" % i
        sc["mode"] = "run"
        S.append(sc)
    return S


def run(tier, seed, which="C15"):
    V = kv.Verdict("C15", tier, seed)
    wd = kv.workdir("c15")
    rng = random.Random(seed)
    r0 = kv.run_tlc("MC_RoundTrip", "MC_RoundTrip_q.cfg" if tier == "quick" else "MC_RoundTrip_t.cfg", wd, workers=8, timeout=3000, heap="6g")
    V.add_tlc(r0)
    if not r0.ok:
        raise kv.Broken("MC_RoundTrip: the modelled writers and readers are not inverse: %s" % r0.out[-500:])
    S = scenarios(rng, tier)
    per = 6
    batches = [S[i:i + per] for i in range(0, len(S), per)]

    def do(bi):
        bwd = os.path.join(wd, "b%d" % bi)
        os.makedirs(bwd, exist_ok=True)
        lines = ["level 1"]
        for k, sc in enumerate(batches[bi]):
            fa = os.path.join(bwd, "in%d.fa" % k)
            lines += ["note %s" % sc["id"]]
            if sc["mode"] == "synthetic":
                open(fa, "w").write(kv.fasta(list(zip(sc["names"], sc["rows"])), width=rng.choice([60, 80, 0])))
                lines += ["read 0 %s" % fa, "final 0"]
            else:
                open(fa, "w").write(kv.fasta(list(zip(sc["names"], sc["seqs"]))))
                lines += ["read 0 %s" % fa, "run 0 %d %d %g %g %g" % (sc["threads"], sc["type"], sc["gpo"], sc["gpe"], sc["tgpe"])]
            lines += ["dump 0 out full"]
            for f in ("fasta", "msf", "clu"):
                lines.append("write 0 %s %s" % (f, os.path.join(bwd, "out%d.%s" % (k, f))))
            lines.append("free 0")
        tp, rc, err = kv.run_kvdrive("\n".join(lines) + "\n", bwd, "t", timeout=300)
        ev = kv.read_trace(tp)
        out = []
        for e in ev:
            out.append(e)
            if e.get("e") == "Ret" and e.get("op") == "write" and e.get("rc") == 0:
                out.append(tokenize_out.layout(e["file"], e["fmt"]))
                out.append(dict(e="Lines", fmt=e["fmt"], lines=tokenize_out.layout(e["file"])if False else [list(x) for x in tokenize_out._lines(e["file"])]))
        kv.write_ndjson(tp, out)
        res = kv.run_tlc("WriterTrace", "WriterTrace.cfg", bwd, trace=tp, timeout=900, heap="3g")
        return bi, tp, rc, err, res, out

    for bi, tp, rc, err, res, ev in kv.pmap(do, range(len(batches)), workers=12):
        V.add_tlc(res)
        for sc in batches[bi]:
            V.case(json.dumps([sc.get("rows") or sc.get("seqs"), sc["names"]]), True)
            V.evaluations += 2
        # signature of a failing file: format, molecule type, whether the object went through an alignment run
        objs = {}
        cur = None
        for i, e in enumerate(ev):
            if e.get("e") == "Note":
                cur = e["text"]
            if e.get("e") == "Obj":
                objs[cur] = e
        for (ln, sid, items) in res.divs:
            V.divergence("scenario %s: %s" % (sid, ",".join(sorted(items))))
        V.extra["files_compared_line_by_line"] = V.extra.get("files_compared_line_by_line", 0) + sum(1 for e in ev if e.get("e") == "Lines")
        for (ln, sid, items) in res.fails:
            e = ev[ln - 1]
            o = objs.get(sid, {})
            sig = dict(what=sorted(items), fmt=e.get("fmt"), biotype=o.get("biotype"), L=o.get("L"), after_run=not sid.startswith("syn"),
                       has_gaps=any(45 in r for r in o.get("seqs", [])))
            rp = kv.save_replay("C15", "b%d" % bi, [tp, os.path.join(wd, "b%d" % bi, "t.kv")])
            V.violation("scenario %s %s file: %s" % (sid, e.get("fmt"), ",".join(sorted(items))), rp, sig)
        if rc != 0 or not res.accepted:
            V.violation("batch %d: harness rc=%s accepted=%s %s" % (bi, rc, res.accepted, err[-200:]), tp, dict(kind="unexplained"))
        else:
            V.traces += 3 * len(batches[bi])
        if bi == 0:
            V.sample(dict(scenario=batches[0][0]["id"], names=batches[0][0]["names"][:3], rows=[r[:70] for r in batches[0][0].get("rows", [])[:3]]))
    return V.finish(rule="alignments: synthetic ones of width 1..1200 (incl. 59/60/61, 119/120/121, 179/180/181), protein and nucleotide, 2-9 rows, names of 1..200 characters "
                    "from [A-Za-z0-9_.|-], mixed case, read + finalised; and alignments produced by runs on generated families; each written as fasta, msf and clu and tokenised; "
                    "distinct by rows+names; evaluations = files checked",
                    assumptions=["the tokenizer splits lines into fields with regular expressions and interprets nothing"])
