"""C16: a library call's result does not depend on the calls made before it; nothing stays allocated after the objects are freed.
Api.tla: TLC enumerates every well-formed history (<= MaxCalls) with the dependency chain of each call; ApiTrace compares each call's
result in the history with the result of its chain replayed in a fresh process. Leaks: LeakSanitizer on the same histories."""
import os, random, json, hashlib, re
import kv, gen

PARS = {"default": dict(threads=4, type=5, pens=(-1, -1, -1)), "explicit": dict(threads=1, type=5, pens=(12, 1.5, 0.5)),
        "typed": dict(threads=2, type=-2, pens=(-1, -1, 3))}   # type -2: dna for nucleotides / protein for proteins


NOCOMPARE = ("free", "readmissing", "writebad")     # calls whose own result is not compared (the failing ones must fail, that is all)
SAME_SHAPES = [(3, 40), (6, 60), (3, 40), (5, 80), (4, 30), (8, 50)]


def make_inputs(rng, wd):
    # equal-length sequences on purpose: ties in the canonical order expose any dependence on stale memory
    dna = gen.family(rng, 6, 36, gen.DNA, sub=0.2, indel=0.0) + gen.family(rng, 2, 30, gen.DNA, sub=0.2, indel=0.1)
    prot = [s + "LKEF" for s in gen.family(rng, 5, 30, gen.AA, sub=0.25, indel=0.0)] + [s + "LKEF" for s in gen.family(rng, 2, 22, gen.AA, sub=0.2, indel=0.1)]
    # many records without residues (name-only FASTA entries) among a few real ones: kalign drops them at run time
    sparse = []
    for i in range(24):
        sparse.append(gen.rand_seq(rng, gen.DNA, 20) if i in (3, 11, 17) else "")
    # records that tie completely in the canonical order (same name, same length, different residues): the order among them
    # must come from the input alone, never from where earlier calls left the heap
    same = {"same": [gen.rand_seq(rng, gen.DNA, 40) for _ in range(5)]}
    for j, (cnt, L) in enumerate(SAME_SHAPES):
        same["same%d" % j] = gen.family(rng, cnt, L, gen.DNA, sub=0.35, indel=0.0) if j % 2 else [gen.rand_seq(rng, gen.DNA, L) for _ in range(cnt)]
    files = {}
    for k, seqs in [("dna", dna), ("prot", prot), ("sparse", sparse)] + sorted(same.items()):
        p = os.path.join(wd, k + ".fa")
        open(p, "w").write(kv.fasta([("x" if k.startswith("same") else "%s%d" % (k[0], i), s) for i, s in enumerate(seqs)]))
        a = os.path.join(wd, k + ".arr")
        open(a, "w").write("".join(",".join(str(ord(c)) for c in s) + "\n" for s in seqs))
        files[k] = (p, a)
    return files


def call_lines(c, files, wd, tag):
    op = c["op"]
    if op == "read":
        return ["read %d %s" % (c["h"], files[c["i"]][0]), "dump %d %s full" % (c["h"], tag)]
    if op == "run":
        P = PARS[c["p"]]
        return ["run %d %d %d %g %g %g" % (c["h"], P["threads"], P["type"] if P["type"] >= 0 else 5, P["pens"][0], P["pens"][1], P["pens"][2]), "dump %d %s full" % (c["h"], tag)]
    if op == "write":
        return ["write %d %s %s" % (c["h"], c["f"], os.path.join(wd, tag + ".out")), "dump %d %s full" % (c["h"], tag)]
    if op == "compare":
        return ["compare %d %d" % (c["g"], c["h"]), "dump %d %s full" % (c["g"], tag)]
    if op == "kalign":
        P = PARS[c["p"]]
        return ["kalign %s %d %d %g %g %g %s" % (files[c["i"]][1], P["threads"], P["type"] if P["type"] >= 0 else 5, P["pens"][0], P["pens"][1], P["pens"][2], tag)]
    if op == "free":
        return ["free %d" % c["h"], "note %s" % tag]
    if op == "readmissing":
        return ["read %d %s" % (c["h"], os.path.join(wd, "no_such_dir", "no_such_file.fa")), "note %s" % tag]
    if op == "writebad":
        return ["write %d fasta %s" % (c["h"], os.path.join(wd, "no_such_dir", "sub", "out.fa")), "note %s" % tag]
    raise ValueError(op)


def project(events, tag, wd):
    """the projected result of the call tagged `tag`: everything the caller can observe"""
    v = {}
    for i, e in enumerate(events):
        if e.get("e") == "Obj" and e.get("tag") == tag:
            v["obj"] = {k: e[k] for k in e if k not in ("e", "q", "t", "tag", "h")}
        if e.get("e") == "Arr" and e.get("tag") == tag:
            v["arr"] = {k: e[k] for k in e if k not in ("e", "q", "t", "tag")}
        if e.get("e") == "Ret":
            # the Ret preceding the dump / note of this call
            nxt = events[i + 1] if i + 1 < len(events) else {}
            if (nxt.get("e") == "Obj" and nxt.get("tag") == tag) or (nxt.get("e") == "Note" and nxt.get("text") == tag) or (nxt.get("e") == "Arr" and nxt.get("tag") == tag):
                v["ret"] = {k: e[k] for k in e if k in ("op", "rc", "score", "finite", "null")}
    if "ret" not in v:
        for i, e in enumerate(events):
            if e.get("e") == "Arr" and e.get("tag") == tag and i + 1 < len(events) and events[i + 1].get("e") == "Ret":
                v["ret"] = {k: events[i + 1][k] for k in events[i + 1] if k in ("op", "rc")}
    f = os.path.join(wd, tag + ".out")
    if os.path.exists(f):
        data = open(f, "rb").read()
        v["file"] = [len(data), int(hashlib.sha1(data).hexdigest()[:7], 16)]
    return v


def run(tier, seed, which="C16"):
    V = kv.Verdict("C16", tier, seed)
    wd = kv.workdir("c16")
    rng = random.Random(seed)
    r = kv.run_tlc("MC_Api", "MC_Api_q.cfg" if tier == "quick" else "MC_Api_t.cfg", wd, workers=1, timeout=1800, heap="6g")
    V.add_tlc(r)
    if r.errors:
        raise kv.Broken("Api model: %s" % r.errors[:2])
    hists = []
    for line in r.prints:
        if line.startswith('"{'):
            hists.append(json.loads(json.loads(line)))
    if not hists:
        raise kv.Broken("TLC emitted no histories")
    if tier == "quick":
        rng.shuffle(hists)
        # keep all histories that contain a run or kalign call, sample the rest
        hists = [h for h in hists if any(c["op"] in ("run", "kalign") for c in h["hist"])][:260] + [h for h in hists if not any(c["op"] in ("run", "kalign") for c in h["hist"])][:40]
    # seeded long histories: interleaved handles, alternating inputs and parameter sets
    for j in range(6 if tier == "quick" else 60):
        st = {0: None, 1: None}
        content = {0: [], 1: []}
        hist, chains = [], []
        for _ in range(rng.randint(8, 20)):
            h = rng.randrange(2)
            opts = []
            if st[h] is None:
                opts.append(("read", rng.choice(["dna", "prot", "sparse", "same", "same"])))
            elif st[h][1] == "read":
                opts += [("run", rng.choice(list(PARS)[:2])), ("free",)]
            else:
                opts += [("write", rng.choice(["fasta", "clu"])), ("free",), ("free",)]
            opts.append(("kalign", rng.choice(["dna", "prot", "sparse"]), rng.choice(list(PARS)[:2])))
            o = rng.choice(opts)
            if o[0] == "read":
                c = dict(op="read", h=h, i=o[1]); chains.append(content[h] + [c]); content[h] = content[h] + [c]; st[h] = (o[1], "read")
            elif o[0] == "run":
                c = dict(op="run", h=h, p=o[1]); chains.append(content[h] + [c]); content[h] = content[h] + [c]; st[h] = (st[h][0], "final")
            elif o[0] == "write":
                c = dict(op="write", h=h, f=o[1]); chains.append(content[h] + [c])
            elif o[0] == "kalign":
                c = dict(op="kalign", i=o[1], p=o[2]); chains.append([c])
            else:
                c = dict(op="free", h=h); chains.append([c]); content[h] = []; st[h] = None
            hist.append(c)
        for h in (0, 1):
            if st[h] is not None:
                c = dict(op="free", h=h); hist.append(c); chains.append([c])
        hists.append(dict(hist=hist, chains=chains, long=True))
    # the same call twice, and after an unrelated read/run/free, on the fully tied input
    for tgt in ["same"] + ["same%d" % j for j in range(len(SAME_SHAPES))]:
        for first in (tgt, "prot"):
            hist = [dict(op="read", h=0, i=first), dict(op="run", h=0, p="explicit"), dict(op="free", h=0),
                    dict(op="read", h=1, i=tgt), dict(op="run", h=1, p="explicit"), dict(op="write", h=1, f="fasta"), dict(op="free", h=1)]
            chains = [hist[:1], hist[:2], [hist[2]], hist[3:4], hist[3:5], hist[3:6], [hist[6]]]
            hists.append(dict(hist=hist, chains=chains, long=True))
    # calls that fail (a file that does not exist, an output directory that does not exist) in front of ordinary work: a failed
    # call must leave nothing behind that a later call can see (errno, half-built objects, static buffers)
    for first in ("readmissing", "writebad"):
        for inp in ("dna", "prot"):
            pre = [dict(op="readmissing", h=1)] if first == "readmissing" else \
                  [dict(op="read", h=1, i="prot"), dict(op="run", h=1, p="explicit"), dict(op="writebad", h=1), dict(op="free", h=1)]
            body = [dict(op="read", h=0, i=inp), dict(op="run", h=0, p="default"), dict(op="write", h=0, f="fasta"), dict(op="free", h=0), dict(op="kalign", i=inp, p="default")]
            prechains = [[c] for c in pre] if first == "readmissing" else [pre[:1], pre[:2], [pre[2]], [pre[3]]]
            hists.append(dict(hist=pre + body, chains=prechains + [body[:1], body[:2], body[:3], [body[3]], [body[4]]], long=True))
    for inp in ("dna", "prot", "sparse", "same"):
        for fmt in ("fasta", "clu"):      # not msf: its header carries the file name and the time
            hist = [dict(op="read", h=0, i=inp), dict(op="run", h=0, p="default"), dict(op="write", h=0, f=fmt), dict(op="free", h=0),
                    dict(op="kalign", i=inp, p="default")]
            chains = [hist[:1], hist[:2], hist[:3], [hist[3]], [hist[4]]]
            hists.append(dict(hist=hist, chains=chains, long=True))
    files = make_inputs(rng, wd)
    # ---- fresh-process results, one per distinct chain
    chainkeys = {}
    for H in hists:
        for k, ch in enumerate(H["chains"]):
            if H["hist"][k]["op"] in NOCOMPARE:
                continue
            chainkeys.setdefault(json.dumps(ch, sort_keys=True), ch)
    ckl = list(chainkeys.items())

    def fresh(idx):
        key, ch = ckl[idx]
        fwd = os.path.join(wd, "fresh%d" % idx)
        os.makedirs(fwd, exist_ok=True)
        lines = ["level 0"]
        for j, c in enumerate(ch):
            lines += call_lines(c, files, fwd, "RES" if j == len(ch) - 1 else "x%d" % j)
        tp, rc, err = kv.run_kvdrive("\n".join(lines) + "\n", fwd, "t", timeout=120)
        return key, project(kv.read_trace(tp), "RES", fwd), rc

    fres = {}
    for key, v, rc in kv.pmap(fresh, range(len(ckl)), workers=14):
        fres[key] = (v, rc)

    # ---- the histories
    # long histories run twice: under ASan/LSan (leaks, memory errors) and with the plain allocator, because the sanitizer's
    # allocator never hands freed chunks back and so hides any dependence on where earlier calls left the heap
    jobs = []
    for hi, H in enumerate(hists):
        if H.get("long"):
            jobs += [(hi, "san"), (hi, "rel")]
        else:
            jobs.append((hi, "san" if hi % 8 == 0 else "rel"))

    def hist_run(ji):
        hi, variant = jobs[ji]
        H = hists[hi]
        hwd = os.path.join(wd, "h%d%s" % (hi, "" if variant == "san" or not H.get("long") else "r"))
        os.makedirs(hwd, exist_ok=True)
        lines = ["level 0"]
        for k, c in enumerate(H["hist"]):
            lines += call_lines(c, files, hwd, "c%d" % k)
        # free whatever is left so that the leak check sees a clean end
        live = set()
        for c in H["hist"]:
            if c["op"] == "read":
                live.add(c["h"])
            if c["op"] == "free":
                live.discard(c["h"])
        for h in sorted(live):
            lines.append("free %d" % h)
        tp, rc, err = kv.run_kvdrive("\n".join(lines) + "\n", hwd, "t", variant=variant, leaks=(variant == "san"), timeout=300)
        ev = kv.read_trace(tp)
        out = []
        for k, c in enumerate(H["hist"]):
            if c["op"] in NOCOMPARE:
                continue
            key = json.dumps(H["chains"][k], sort_keys=True)
            tagr = "r" if (variant == "rel" and H.get("long")) else ""
            out.append(dict(e="Res", id="h%d%s:c%d" % (hi, tagr, k), v=project(ev, "c%d" % k, hwd)))
            out.append(dict(e="Fresh", id="h%d%s:c%d" % (hi, tagr, k), v=fres[key][0]))
        leak = 0
        if variant == "san":
            m = re.search(r"SUMMARY: AddressSanitizer: (\d+) byte\(s\) leaked", err)
            leak = int(m.group(1)) if m else 0
            out.append(dict(e="Leak", id="h%d" % hi, bytes=leak))
        return hi, out, rc, err, variant

    allev = []
    results = kv.pmap(hist_run, range(len(jobs)), workers=14)
    bad = []
    seen_h = set()
    for hi, out, rc, err, variant in results:
        allev += out
        if hi in seen_h:
            ok_rc = rc == 0 or (variant == "san" and rc == 99)
            if not ok_rc:
                bad.append((hi, rc, err[-300:]))
            continue
        seen_h.add(hi)
        V.case(json.dumps(hists[hi]["hist"], sort_keys=True), any(c["op"] in ("run", "kalign") for c in hists[hi]["hist"]))
        ok_rc = rc == 0 or (variant == "san" and rc == 99)
        if not ok_rc:
            bad.append((hi, rc, err[-300:]))
    # TLC compares
    chunks = [allev[i:i + 4000] for i in range(0, len(allev), 4000)]

    def tlc(ci):
        tp = os.path.join(wd, "api_%d.ndjson" % ci)
        kv.write_ndjson(tp, chunks[ci])
        return ci, tp, kv.run_tlc("ApiTrace", "ApiTrace.cfg", wd, trace=tp, timeout=1800, heap="4g", name="api%d" % ci)
    for ci, tp, res in kv.pmap(tlc, range(len(chunks)), workers=8):
        V.add_tlc(res)
        for (ln, cid, items) in res.fails:
            hname = cid.split(":")[0]
            hi = int(hname[1:].rstrip("r"))
            H = hists[hi]
            k = int(cid.split(":")[1][1:]) if ":" in cid else -1
            call = H["hist"][k] if k >= 0 else {}
            sig = dict(what=sorted(items), op=call.get("op"), long=bool(H.get("long")))
            rp = kv.save_replay("C16", hname, [os.path.join(wd, hname, "t.kv"), os.path.join(wd, hname, "t.ndjson")])
            V.violation("history %s, call %d (%s): %s" % (json.dumps(H["hist"])[:300], k, call.get("op"), ",".join(sorted(items))), rp, sig)
        if not res.accepted:
            V.violation("trace not accepted", tp, dict(kind="unexplained"))
        V.traces += sum(1 for e in chunks[ci] if e["e"] == "Res")
    for hi, rc, err in bad:
        V.violation("history %d: harness rc=%s %s" % (hi, rc, err.replace("\n", " ")), os.path.join(wd, "h%d" % hi), dict(kind="unexplained", rc=rc))
    V.sample(dict(history=hists[0]["hist"], chains=hists[0]["chains"]))
    return V.finish(rule="every well-formed history of %d calls over 2 handles, 2 inputs (DNA / protein, with length ties), 2 parameter sets and 2 formats enumerated by TLC from Api.tla "
                    "(quick: all that contain an alignment call, sample of the rest) plus seeded histories of 8-20 calls; each call's observable result (return code, projected object, rows, "
                    "score, file bytes) compared with its dependency chain replayed in a fresh process; a sample of histories and all long ones run under LeakSanitizer" % (3 if tier == "quick" else 4),
                    assumptions=["the projection of struct msa (names, residues, gaps, lens, ranks, status, biotype, L, alnlen) is what a caller can observe",
                                 "leaks are those LeakSanitizer reports at exit after all objects were freed"])
