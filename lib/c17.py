"""C17: the alignment-comparison score is exact (Compare.tla lemmas + CompareTrace on real calls)."""
import os, random, json, itertools
import kv, gen, present


def shift_gaps(rng, rows, k=3):
    """perturb an alignment: move some gap runs by one column (keeps residues and width)"""
    out = []
    for r in rows:
        r = list(r)
        for _ in range(k):
            i = rng.randrange(len(r))
            if r[i] == "-" and i + 1 < len(r) and r[i + 1] != "-":
                r[i], r[i + 1] = r[i + 1], r[i]
            elif r[i] != "-" and i + 1 < len(r) and r[i + 1] == "-":
                r[i], r[i + 1] = r[i + 1], r[i]
        out.append("".join(r))
    return out


def tiny_alignments():
    """all alignments of 'AC' / 'G' style tiny sequence pairs as rows (with at least one gap somewhere)"""
    out = []
    def paths(la, lb):
        if la == 0 and lb == 0:
            return [[]]
        r = []
        if la and lb:
            r += [[0] + p for p in paths(la - 1, lb - 1)]
        if lb:
            r += [[1] + p for p in paths(la, lb - 1)]
        if la:
            r += [[2] + p for p in paths(la - 1, lb)]
        return r
    for a, b in [("AC", "G"), ("AC", "GT"), ("A", "CGT")]:
        alns = []
        for p in paths(len(a), len(b)):
            ra, rb, i, j = "", "", 0, 0
            for c in p:
                if c == 0:
                    ra += a[i]; rb += b[j]; i += 1; j += 1
                elif c == 1:
                    ra += "-"; rb += b[j]; j += 1
                else:
                    ra += a[i]; rb += "-"; i += 1
            alns.append([ra, rb])
        out.append(alns)
    return out


def run(tier, seed, which="C17"):
    V = kv.Verdict("C17", tier, seed)
    wd = kv.workdir("c17")
    rng = random.Random(seed)
    r = kv.run_tlc("MC_Compare", "MC_Compare.cfg" if tier != "quick" else "MC_Compare_q.cfg", wd, workers=8, timeout=1800)
    V.add_tlc(r)
    if not r.ok:
        raise kv.Broken("Compare lemmas fail: %s" % r.errors[:2])
    cases = []   # dict(id, lines)
    fi = [0]

    def f(text, ext):
        fi[0] += 1
        return present.write(os.path.join(wd, "f%d.%s" % (fi[0], ext)), text)

    def filecase(cid, namesR, rowsR, namesT, rowsT, fmtR="fasta", fmtT="fasta"):
        def mk(names, rows, fmt):
            if fmt == "fasta":
                return f(present.to_fasta(names, rows), "fa")
            if fmt == "clu":
                return f(present.to_clustal(names, rows), "aln")
            return f(present.to_msf(names, rows, protein=False), "msf")
        a = mk(namesR, rowsR, fmtR)
        b = mk(namesT, rowsT, fmtT)
        cases.append(dict(id=cid, key=json.dumps([namesR, rowsR, namesT, rowsT]), lines=["note %s" % cid, "read 0 %s" % a, "read 1 %s" % b, "dump 0 ref full", "dump 1 test full", "compare 0 1", "free 0", "free 1"]))

    # A. enumerated tiny pairs from files: every pair of alignments of the same sequences, both row orders, with/without all-gap columns, 3 formats
    k = 0
    for alns in tiny_alignments():
        gapped = [a for a in alns if any("-" in r for r in a)]
        pairs = list(itertools.product(gapped, gapped))
        if tier == "quick":
            pairs = pairs[::3]
        for R, T in pairs:
            fm = ["fasta", "clu", "msf"][k % 3]
            names = ["x", "y"]
            variant = k % 4
            nT, rT = names, T
            if variant == 1:
                nT, rT = names[::-1], T[::-1]
            elif variant == 2:
                rT = ["-" + r + "-" for r in T]
            elif variant == 3:
                nT, rT = names[::-1], ["--" + r for r in T[::-1]]
            filecase("tiny%d" % k, names, R, nT, rT, fm, ["fasta", "clu", "msf"][(k // 3) % 3])
            k += 1
    # A2. wide and tall synthetic alignments from files: 45..130 rows (every pair of rows enters the score), widths beyond one
    # block, perturbed copy (one row shifted against the others), permuted copy, identical copy
    for j, (nr, W) in enumerate([(45, 30), (64, 61), (130, 20)] if tier == "quick" else [(41, 30), (45, 30), (64, 61), (100, 80), (130, 20), (257, 12)]):
        base = [gen.rand_seq(rng, gen.DNA, W) for _ in range(nr)]
        names = ["t%03d" % i for i in range(nr)]
        R = ["".join(c if rng.random() > 0.1 else "-" for c in r) for r in base]
        R = [r if any(c != "-" for c in r) else "A" + r[1:] for r in R]
        Wd = max(len(r) for r in R)
        T = list(R)
        for v in range(3):
            k2 = nr - 1 - v if v else rng.randrange(nr)      # also the very last row
            res = T[k2].replace("-", "")
            T[k2] = ("-" * (Wd - len(res))) + res              # all residues pushed to the right end
        order = list(range(nr))
        rng.shuffle(order)
        filecase("tall%d_perturbed" % j, names, R, names, T, "fasta", ["fasta", "clu", "msf"][j % 3])
        filecase("tall%d_permuted" % j, names, R, [names[o] for o in order], [T[o] for o in order], "fasta", "fasta")
        filecase("tall%d_same" % j, names, R, [names[o] for o in order], [R[o] for o in order], ["clu", "msf", "fasta"][j % 3], "fasta")
    # B. real alignments: two runs with different parameters compared in process, and against perturbed / permuted copies from files
    nb = 15 if tier == "quick" else 250
    for i in range(nb):
        sc = gen.alignment_scenario(rng, nmax=9, lmax=90)
        if len(set(sc["seqs"])) < 2:
            continue
        if i % 3 == 0:
            sc["seqs"] = [gen.case_mask(rng, s, rng.choice([0.3, 1.0])) for s in sc["seqs"]]
        fa = f(kv.fasta(list(zip(sc["names"], sc["seqs"]))), "fa")
        alt = (0.0, 0.0, 0.0) if i % 2 else (sc["gpo"] if sc["gpo"] >= 0 else 20.0, 1.0, 0.5)
        cid = "runs%d" % i
        out0 = os.path.join(wd, "o%d_0.fa" % i)
        cases.append(dict(id=cid, key=json.dumps([sc["seqs"], sc["type"]]), post=(cid, out0, sc["names"]),
                          lines=["note %s" % cid, "read 0 %s" % fa, "run 0 2 %d -1 -1 -1" % sc["type"], "read 1 %s" % fa,
                                 "run 1 2 %d %g %g %g" % (sc["type"], alt[0], alt[1], alt[2]), "write 0 fasta %s" % out0,
                                 "dump 0 ref full", "dump 1 test full", "compare 0 1",
                                 "note %s_self" % cid, "dump 0 ref full", "dump 0 test full", "compare 0 0", "free 0", "free 1"]))
    batches = [cases[i:i + 25] for i in range(0, len(cases), 25)]

    def do(bi):
        bwd = os.path.join(wd, "b%d" % bi)
        os.makedirs(bwd, exist_ok=True)
        lines = ["level 1"]
        for c in batches[bi]:
            lines += c["lines"]
        tp, rc, err = kv.run_kvdrive("\n".join(lines) + "\n", bwd, "t", timeout=300)
        res = kv.run_tlc("CompareTrace", "CompareTrace.cfg", bwd, trace=tp, timeout=900, heap="3g")
        return bi, tp, rc, err, res

    def consume(results, batches_):
        for bi, tp, rc, err, res in results:
            V.add_tlc(res)
            skipped = set(p.split('"')[3] for p in res.prints if p.startswith('<<"KVSKIP"') and len(p.split('"')) > 3)
            V.extra["premise_not_met_skipped"] = V.extra.get("premise_not_met_skipped", 0) + len(skipped)
            for c in batches_[bi]:
                V.case(c["key"], c["id"] not in skipped)
            for (ln, sid, items) in res.fails:
                rp = kv.save_replay("C17", "b%d_%d" % (bi, id(batches_) % 1000), [tp, os.path.join(os.path.dirname(tp), "t.kv")])
                V.violation("case %s: %s" % (sid, ",".join(sorted(items))), rp, dict(what=sorted(items)))
            if rc != 0 or not res.accepted:
                V.violation("batch %d: harness rc=%s accepted=%s %s" % (bi, rc, res.accepted, err[-300:].replace("\n", " ")), tp, dict(kind="unexplained"))
            else:
                V.traces += len(batches_[bi])

    consume(kv.pmap(do, range(len(batches)), workers=12), batches)
    # second round: the alignments written by the runs, against permuted / padded / perturbed copies read from files
    cases2 = []
    import tokenize_out
    for c in cases:
        if "post" not in c:
            continue
        cid, out0, names = c["post"]
        if not os.path.exists(out0):
            continue
        nm, rows = tokenize_out.tok_fasta(out0)
        nm = ["".join(map(chr, x)) for x in nm]
        rows = ["".join(map(chr, x)) for x in rows]
        if not any("-" in r for r in rows) or len(set(len(r) for r in rows)) != 1:
            continue
        order = list(range(len(rows)))
        rng.shuffle(order)
        pert = shift_gaps(rng, rows, 4)
        for tag, nT, rT in (("perm", [nm[i] for i in order], ["-" + rows[i] + "--" for i in order]), ("pert", nm, pert)):
            a = f(present.to_fasta(nm, rows), "fa")
            if tag == "pert" and not any("-" in r for r in rT):
                continue
            b = f(present.to_clustal(nT, rT) if len(cases2) % 2 else present.to_fasta(nT, rT), "x")
            cases2.append(dict(id="%s_%s" % (cid, tag), key=json.dumps([rows, nT, rT]),
                               lines=["note %s_%s" % (cid, tag), "read 0 %s" % a, "read 1 %s" % b, "dump 0 ref full", "dump 1 test full", "compare 0 1", "free 0", "free 1"]))
    batches2 = [cases2[i:i + 25] for i in range(0, len(cases2), 25)]
    wd2 = os.path.join(wd, "second")
    os.makedirs(wd2, exist_ok=True)

    def do2(bi):
        bwd = os.path.join(wd2, "b%d" % bi)
        os.makedirs(bwd, exist_ok=True)
        lines = ["level 1"]
        for c in batches2[bi]:
            lines += c["lines"]
        tp, rc, err = kv.run_kvdrive("\n".join(lines) + "\n", bwd, "t", timeout=300)
        res = kv.run_tlc("CompareTrace", "CompareTrace.cfg", bwd, trace=tp, timeout=900, heap="3g")
        return bi, tp, rc, err, res
    consume(kv.pmap(do2, range(len(batches2)), workers=12), batches2)
    V.sample(dict(case="tiny0", ref=["AC", "G-"], test="every alignment of the same two sequences", formats="fasta/clu/msf"))
    return V.finish(rule="(A) every ordered pair of gapped alignments of tiny sequence pairs, from files in 3 formats, both row orders, with/without all-gap columns; "
                    "(B) two runs of one input under different penalties compared in process, each run against itself, and the written alignment against row-permuted+padded and gap-shifted copies read from files; "
                    "upper, mixed and lower case; cases whose premise fails (Compare!Comparable) are skipped by the spec",
                    assumptions=["score logged as lround(score*1e4); tolerance 1e-3 score units for float arithmetic"])
