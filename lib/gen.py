"""Input generators (inputs only; never expected results)."""
import random, string

DNA = "ACGT"
RNA = "ACGU"
AA = "ACDEFGHIKLMNPQRSTVWY"
TYPES_NUC = [0, 1, 2, 5]      # dna, internal, rna, undefined
TYPES_PROT = [3, 4, 5]        # protein, divergent, undefined


def rand_seq(rng, alpha, n):
    return "".join(rng.choice(alpha) for _ in range(n))


def mutate(rng, s, alpha, sub=0.1, indel=0.03, maxindel=6):
    out = []
    i = 0
    while i < len(s):
        r = rng.random()
        if r < indel / 2:
            i += rng.randint(1, maxindel)            # deletion
            continue
        if r < indel:
            out.append(rand_seq(rng, alpha, rng.randint(1, maxindel)))  # insertion
        c = s[i]
        if rng.random() < sub:
            c = rng.choice(alpha)
        out.append(c)
        i += 1
    t = "".join(out)
    return t if t else rng.choice(alpha)


def family(rng, n, L, alpha, sub=0.12, indel=0.04, maxindel=6, tree=True):
    """n sequences descended from one random ancestor of length L"""
    root = rand_seq(rng, alpha, L)
    seqs = [root]
    while len(seqs) < n:
        parent = rng.choice(seqs) if tree else root
        seqs.append(mutate(rng, parent, alpha, sub, indel, maxindel))
    rng.shuffle(seqs)
    return seqs


def star(rng, n, L, alpha, sub=0.25, indel=0.03):
    """n sequences each mutated directly from one random root: a loose family without internal structure"""
    root = rand_seq(rng, alpha, L)
    return [mutate(rng, root, alpha, sub, indel) for _ in range(n)]


def names(rng, n, style="plain"):
    out = []
    seen = set()
    while len(out) < n:
        if style == "plain":
            nm = "s%d" % (len(out) + 1)
        elif style == "prefix":
            base = "seq"
            nm = base + "".join(rng.choice("0123456789ab") for _ in range(rng.randint(0, 4)))
        else:
            k = rng.randint(1, 12)
            nm = "".join(rng.choice(string.ascii_letters + string.digits + "_.|-") for _ in range(k))
            if nm[0] in "-.|":
                nm = "n" + nm
        if nm not in seen:
            seen.add(nm)
            out.append(nm)
    return out


def case_mask(rng, s, p=0.3):
    return "".join(c.lower() if rng.random() < p else c for c in s)


def alignment_scenario(rng, kind=None, nmax=12, lmax=120):
    """returns dict(biotype, seqs, names, type, gpo,gpe,tgpe, threads)"""
    kind = kind or rng.choice(["dna", "rna", "protein"])
    alpha = {"dna": DNA, "rna": RNA, "protein": AA}[kind]
    n = rng.randint(2, nmax)
    L = rng.randint(3, lmax)
    shape = rng.random()
    if shape < 0.6:
        seqs = family(rng, n, L, alpha, sub=rng.choice([0.02, 0.1, 0.3]), indel=rng.choice([0.0, 0.03, 0.1]))
    elif shape < 0.75:  # duplicates
        base = family(rng, max(2, n // 2), L, alpha)
        seqs = [rng.choice(base) for _ in range(n)]
        if len(set(seqs)) == 1 and n > 1:
            seqs[0] = mutate(rng, seqs[0], alpha, 0.3, 0.1)
    elif shape < 0.9:   # extreme length ratios
        seqs = family(rng, n, L, alpha)
        k = rng.randrange(n)
        seqs[k] = seqs[k][:rng.randint(1, 3)]
    else:               # unrelated
        seqs = [rand_seq(rng, alpha, rng.randint(1, lmax)) for _ in range(n)]
    if rng.random() < 0.3:
        seqs = [case_mask(rng, s) for s in seqs]
    if kind == "protein":
        # make sure detection is clearly protein: at least a quarter protein-only letters
        seqs = [s if sum(c.upper() in "DEFHIKLMPQRSVWY" for c in s) * 4 >= len(s) else s + "LKEF" for s in seqs]
    ty = rng.choice(TYPES_PROT if kind == "protein" else TYPES_NUC)
    pens = rng.random()
    if pens < 0.6:
        gpo = gpe = tgpe = -1.0
    elif pens < 0.8:
        gpo, gpe, tgpe = rng.choice([0.0, 2.5, 10.0, 55.0]), rng.choice([0.0, 0.5, 3.0]), rng.choice([0.0, 1.0, 8.0])
    else:
        gpo, gpe, tgpe = float(rng.randint(0, 300)), float(rng.randint(0, 60)), float(rng.randint(0, 60))
    return dict(kind=kind, seqs=seqs, names=names(rng, n, rng.choice(["plain", "prefix", "wild"])),
                type=ty, gpo=gpo, gpe=gpe, tgpe=tgpe, threads=rng.choice([1, 2, 3, 4, 8, 16]))
