"""Common machinery of the kalign TLA+ verification framework.

  * builds (kvbuild)
  * running the harness on scenario scripts -> NDJSON traces
  * running TLC on specs / trace specs and reading its verdicts
  * evidence files, known findings, VIOLATION / KNOWN-FINDING lines
All judgement about properties is made by TLC on the specification; python only
generates inputs, moves files and counts.
"""
import hashlib, json, os, random, re, shutil, subprocess, sys, time
from concurrent.futures import ThreadPoolExecutor

VERIF = os.path.dirname(os.path.dirname(os.path.abspath(__file__)))
sys.path.insert(0, os.path.join(VERIF, "lib"))
import kvbuild

SPEC = os.path.join(VERIF, "spec")
WORK = os.path.join(VERIF, "work")
EVID = os.path.join(VERIF, "evidence")
KNOWN = os.path.join(VERIF, "known_findings.json")
NCPU = os.cpu_count() or 4


class Broken(Exception):
    """the check itself is broken (build failure, TLC failure): exit 2, never a VIOLATION"""


def workdir(name, clean=True):
    d = os.path.join(WORK, name)
    if clean and os.path.exists(d):
        shutil.rmtree(d, ignore_errors=True)
    os.makedirs(d, exist_ok=True)
    return d


import threading
_build_lock = threading.Lock()
_built = {}


def build(variant):
    """build once per process (the sources are hashed; unchanged trees are not rebuilt)"""
    with _build_lock:
        if variant in _built:
            return _built[variant]
        try:
            _built[variant] = kvbuild.build(variant)
        except Exception as e:  # noqa
            raise Broken("build %s failed: %s" % (variant, e))
        return _built[variant]


# --------------------------------------------------------------------------
# harness

def _cut_to_complete_lines(tp):
    """a killed run can leave a half-written last event: keep only complete lines"""
    try:
        with open(tp, "rb+") as f:
            data = f.read()
            k = data.rfind(b"\n")
            if k + 1 != len(data):
                f.seek(0)
                f.truncate(k + 1 if k >= 0 else 0)
    except OSError:
        pass


def run_kvdrive(script_text, wd, name, variant="rel", env=None, timeout=120, taskset=None, stdin_bytes=None, leaks=False, hang_is_verdict=False):
    """returns (trace_path, returncode, stderr_tail). returncode 124 = timeout.
    A timeout is a statement about the machine as much as about kalign: unless the caller judges hangs itself
    (C05, hang_is_verdict), a timed-out run is repeated once alone (machine-wide lock) with three times the
    budget, and if it still does not finish the check is inconclusive (Broken, exit 2), not a violation."""
    tp, rc, err = _run_kvdrive_once(script_text, wd, name, variant, env, timeout, taskset, stdin_bytes, leaks)
    # LeakSanitizer's own tracer sometimes dies at exit ("LeakSanitizer has encountered a fatal error", seen with OpenMP worker
    # threads on a loaded machine, after the script had run to its End event): that is a failure of the tool, not a report
    # about kalign. Repeat; if it persists, repeat without leak detection and say so.
    tries = 0
    while rc != 0 and "LeakSanitizer has encountered a fatal error" in err and tries < 3:
        tries += 1
        tp, rc, err = _run_kvdrive_once(script_text, wd, name, variant, env, timeout, taskset, stdin_bytes, leaks if tries < 3 else False)
        if tries == 3:
            sys.stdout.write("NOTE: LeakSanitizer failed three times on %s; the run was repeated without leak detection\n" % os.path.join(wd, name + ".kv"))
    if rc == 124 and hang_is_verdict is not True:
        import fcntl
        os.makedirs(WORK, exist_ok=True)
        with open(os.path.join(WORK, ".alone.lock"), "w") as lk:
            fcntl.flock(lk, fcntl.LOCK_EX)
            tp, rc, err = _run_kvdrive_once(script_text, wd, name, variant, env, 3 * timeout, taskset, stdin_bytes, leaks)
        if rc == 124 and hang_is_verdict == "retry":
            return tp, rc, err
        if rc == 124:
            raise Broken("kvdrive did not finish within %ss even when repeated alone (%s): no verdict for this property; hangs are judged by C05" % (3 * timeout, os.path.join(wd, name + ".kv")))
        sys.stdout.write("NOTE: a run that timed out under load finished when repeated alone (%s)\n" % os.path.join(wd, name + ".kv"))
    return tp, rc, err


def _run_kvdrive_once(script_text, wd, name, variant, env, timeout, taskset, stdin_bytes, leaks):
    bdir = build(variant)
    sp = os.path.join(wd, name + ".kv")
    tp = os.path.join(wd, name + ".ndjson")
    with open(sp, "w") as f:
        f.write(script_text)
    e = dict(os.environ)
    e.setdefault("OMP_NUM_THREADS", "4")
    if variant == "san":
        e["ASAN_OPTIONS"] = "detect_leaks=%d:abort_on_error=0:exitcode=99:allocator_may_return_null=1" % (1 if leaks else 0)
        e["UBSAN_OPTIONS"] = "print_stacktrace=1:halt_on_error=1:exitcode=98"
    if env:
        e.update(env)
    cmd = [os.path.join(bdir, "kvdrive"), "-s", sp, "-o", tp]
    if taskset:
        cmd = ["taskset", "-c", taskset] + cmd
    try:
        if stdin_bytes is None:
            p = subprocess.run(cmd, stdin=subprocess.DEVNULL, stdout=subprocess.PIPE, stderr=subprocess.PIPE, timeout=timeout, env=e)
        else:
            p = subprocess.run(cmd, input=stdin_bytes, stdout=subprocess.PIPE, stderr=subprocess.PIPE, timeout=timeout, env=e)
        if p.returncode != 0:
            _cut_to_complete_lines(tp)
        return tp, p.returncode, p.stderr.decode("utf-8", "replace")[-6000:]
    except subprocess.TimeoutExpired:
        _cut_to_complete_lines(tp)
        return tp, 124, "timeout after %ss" % timeout


def run_cli(args, variant="rel", stdin_bytes=None, timeout=60, env=None, cwd=None, leaks=False, hang_is_verdict=True):
    """returncode 124 = timeout; hang_is_verdict="retry": a timed-out run is repeated once alone with three times the budget"""
    r = _run_cli_once(args, variant, stdin_bytes, timeout, env, cwd, leaks)
    tries = 0
    while r[0] != 0 and b"LeakSanitizer has encountered a fatal error" in r[2] and tries < 3:
        tries += 1
        r = _run_cli_once(args, variant, stdin_bytes, timeout, env, cwd, leaks if tries < 3 else False)
    if r[0] == 124 and hang_is_verdict == "retry":
        import fcntl
        os.makedirs(WORK, exist_ok=True)
        with open(os.path.join(WORK, ".alone.lock"), "w") as lk:
            fcntl.flock(lk, fcntl.LOCK_EX)
            r = _run_cli_once(args, variant, stdin_bytes, 3 * timeout, env, cwd, leaks)
    return r


def _run_cli_once(args, variant, stdin_bytes, timeout, env, cwd, leaks):
    bdir = build(variant)
    e = dict(os.environ)
    if variant == "san":
        e["ASAN_OPTIONS"] = "detect_leaks=%d:abort_on_error=0:exitcode=99" % (1 if leaks else 0)
        e["UBSAN_OPTIONS"] = "print_stacktrace=1:halt_on_error=1:exitcode=98"
    if env:
        e.update(env)
    try:
        p = subprocess.run([os.path.join(bdir, "kalign")] + args,
                           stdin=subprocess.DEVNULL if stdin_bytes is None else None,
                           input=stdin_bytes, stdout=subprocess.PIPE, stderr=subprocess.PIPE,
                           timeout=timeout, env=e, cwd=cwd)
        return p.returncode, p.stdout, p.stderr
    except subprocess.TimeoutExpired:
        return 124, b"", b"timeout"


def pmap(fn, items, workers=None):
    with ThreadPoolExecutor(max_workers=workers or NCPU) as ex:
        return list(ex.map(fn, items))


def read_trace(path):
    out = []
    if not os.path.exists(path):
        return out
    with open(path, "rb") as f:
        for line in f:
            line = line.strip()
            if not line:
                continue
            try:
                out.append(json.loads(line))
            except Exception:
                out.append({"e": "Garbled"})
    return out


def write_ndjson(path, events):
    with open(path, "w") as f:
        for e in events:
            f.write(json.dumps(e, separators=(",", ":")) + "\n")


# --------------------------------------------------------------------------
# TLC

class TlcResult:
    def __init__(self):
        self.rc = None
        self.generated = 0
        self.distinct = 0
        self.depth = 0
        self.fails = []     # (line, sid, set-of-strings) from KVFAIL
        self.divs = []      # from KVDIV
        self.prints = []    # other PrintT tuples (raw text)
        self.errors = []    # TLC "Error:" lines
        self.accepted = True
        self.ok = True
        self.out = ""
        self.wall = 0.0
        self.coverage = {}

    def inv_violated(self):
        return [e for e in self.errors if "Invariant" in e and "violated" in e]


_KV = re.compile(r'^<<"(KVFAIL|KVDIV)",(\d+),"([^"]*)",\{(.*)\}>>$')


def _squeeze(s):
    """remove blanks outside string literals"""
    out, q = [], False
    for ch in s:
        if ch == '"':
            q = not q
        if ch in " \t" and not q:
            continue
        out.append(ch)
    return "".join(out)


def _join_wrapped(lines):
    """TLC wraps long printed values over several lines: re-join tuples until << and >> balance"""
    buf = None
    for line in lines:
        st = line.strip()
        if buf is None:
            if st.startswith("<<"):
                buf = st
            else:
                yield line
                continue
        else:
            buf += " " + st
        if buf.count("<<") <= buf.count(">>"):
            yield _squeeze(buf)
            buf = None
    if buf is not None:
        yield _squeeze(buf)


def run_tlc(module, cfg, wd, trace=None, workers=1, cont=False, timeout=900, env=None, heap="4g", name=None, coverage=False, simulate=None, depth=None):
    """run TLC on spec/<module>.tla with spec/<cfg>; returns TlcResult. Raises Broken on parse errors / crashes."""
    meta = os.path.join(wd, "tlc_" + (name or cfg.replace(".cfg", "")) + "_%d" % random.randrange(10 ** 9))
    os.makedirs(meta, exist_ok=True)
    e = dict(os.environ)
    if trace:
        e["TRACE"] = trace
    if env:
        e.update(env)
    cmd = ["java", "-XX:+UseParallelGC", "-Xmx" + heap, "-cp",
           "/opt/veriftools/tla/tla2tools.jar:/opt/veriftools/tla/CommunityModules-deps.jar", "tlc2.TLC",
           "-workers", str(workers), "-metadir", meta, "-config", cfg, "-noGenerateSpecTE"]
    if cont:
        cmd.append("-continue")
    if coverage:
        cmd += ["-coverage", "1"]
    if simulate:
        cmd += ["-simulate", "num=%d" % simulate]
        if depth:
            cmd += ["-depth", str(depth)]
    cmd.append(module + ".tla")
    t0 = time.time()
    logp = os.path.join(meta, "tlc.out")
    with open(logp, "wb") as lf:
        try:
            p = subprocess.run(cmd, cwd=SPEC, stdin=subprocess.DEVNULL, stdout=lf, stderr=subprocess.STDOUT, timeout=timeout, env=e)
            rc = p.returncode
        except subprocess.TimeoutExpired:
            rc = 124
    with open(logp, "rb") as lf:
        out = lf.read(64 << 20).decode("utf-8", "replace")   # never swallow more than 64 MB of TLC output
    r = TlcResult()
    r.wall = time.time() - t0
    r.rc = rc
    r.out = out
    shutil.rmtree(meta, ignore_errors=True)
    for line in _join_wrapped(out.splitlines()):
        m = _KV.match(line.strip())
        if m:
            items = set(x.strip().strip('"') for x in m.group(4).split(",") if x.strip())
            rec = (int(m.group(2)), m.group(3), items)
            tgt = r.fails if m.group(1) == "KVFAIL" else r.divs
            if rec not in tgt:
                tgt.append(rec)
            continue
        if line.startswith("<<") or line.startswith('"'):
            r.prints.append(line)
        if line.startswith("Error:"):
            r.errors.append(line)
        m = re.match(r"^(\d+) states generated, (\d+) distinct states found", line)
        if m:
            r.generated = int(m.group(1))
            r.distinct = int(m.group(2))
        m = re.match(r"^The depth of the complete state graph search is (\d+)", line)
        if m:
            r.depth = int(m.group(1))
    if any("Postcondition" in x for x in r.errors):
        r.accepted = False
    fatal = [x for x in r.errors if not ("Invariant" in x and "violated" in x) and "Postcondition" not in x
             and "behavior up to this point" not in x and "Action property" not in x and "Temporal properties were violated" not in x and not ("Temporal property" in x and "violated" in x)
             and "counter-example" not in x.lower()]
    if rc == 124:
        raise Broken("TLC timeout on %s/%s after %ss" % (module, cfg, timeout))
    if fatal or "Parsing or semantic analysis failed" in out or (r.generated == 0 and not simulate and not r.errors):
        raise Broken("TLC failed on %s/%s (rc=%s): %s\n%s" % (module, cfg, rc, fatal[:3], out[-3000:]))
    r.ok = not r.errors
    return r


def tlc_mc(module, cfg, wd, workers=NCPU, timeout=1800, heap="8g", expect_violation=False):
    """exhaustive model checking run; returns TlcResult; with expect_violation the twin must fail"""
    r = run_tlc(module, cfg, wd, workers=workers, timeout=timeout, heap=heap)
    if expect_violation and r.ok:
        raise Broken("broken twin %s/%s was NOT rejected: the invariant is vacuous" % (module, cfg))
    return r



def mc_aligner(V, wd, tag, tier):
    """end-to-end model (Aligner.tla: canonical order, distances, UPGMA, progressive merges, rows): the property's invariant
    exhaustively over small inputs; the twin (gap vectors of the wrong side) must be rejected"""
    for t in (["q"] if tier == "quick" else ["q", "t", "t2"]):
        cfg = "MC_Aligner_%s_%s.cfg" % (tag, t)
        r = run_tlc("MC_Aligner", cfg, wd, workers=8, timeout=3400, heap="8g", name=cfg)
        V.add_tlc(r)
        if not r.ok:
            raise Broken("MC_Aligner %s: the composed model violates the property: %s" % (cfg, r.out[-500:]))
    if run_tlc("MC_Aligner", "MC_Aligner_twin.cfg", wd, workers=4, timeout=900, heap="4g", name="aligner_twin").ok:
        raise Broken("MC_Aligner twin not rejected")

# --------------------------------------------------------------------------
# known findings, verdict lines, evidence

def load_known():
    if not os.path.exists(KNOWN):
        return {"findings": [], "fixed": []}
    return json.load(open(KNOWN))


def known_for(prop):
    return [f for f in load_known().get("findings", []) if f.get("property") == prop]


class Verdict:
    """collects violations of one check; applies known-findings; prints the interface lines"""

    def __init__(self, prop, tier, seed):
        self.prop = prop
        self.tier = tier
        self.seed = seed
        self.violations = []   # dicts: what, replay, signature
        self.known_hits = {}   # id -> count
        self.diverged = []
        self.t0 = time.time()
        self.states = 0
        self.transitions = 0
        self.traces = 0
        self.evaluations = 0
        self.nontrivial = set()
        self.samples = []
        self.notes = []
        self.extra = {}

    def add_tlc(self, r):
        self.states += r.distinct
        self.transitions += r.generated

    def violation(self, what, replay, signature=None):
        """signature: dict of facts about the failing case, matched against known findings"""
        for f in known_for(self.prop):
            if signature is not None and _match(f.get("match", {}), signature):
                self.known_hits.setdefault(f["id"], [0, f])[0] += 1
                return False
        self.violations.append(dict(what=what, replay=replay, signature=signature))
        return True

    def divergence(self, what):
        self.diverged.append(what)

    def case(self, key, nontrivial=True):
        self.evaluations += 1
        if nontrivial:
            self.nontrivial.add(key if isinstance(key, str) else hashlib.sha1(repr(key).encode()).hexdigest())

    def sample(self, s):
        if len(self.samples) < 4:
            self.samples.append(s)

    def finish(self, level="model_checking", rule="", assumptions=None, exhaustive=False):
        wall = time.time() - self.t0
        cov = dict(states=max(self.states, 0), transitions=max(self.transitions, 0),
                   traces_validated_against_impl=self.traces,
                   evaluations=self.evaluations, distinct_nontrivial=len(self.nontrivial),
                   rule=rule, samples=self.samples or ["(none)"], exhaustive=exhaustive,
                   model_divergences=len(self.diverged), known_finding_hits={k: v[0] for k, v in self.known_hits.items()})
        cov.update(self.extra)
        ev = dict(property_id=self.prop, tier=self.tier, seed=self.seed, level=level, coverage=cov,
                  assumptions=assumptions or [], wall_s=round(wall, 2), violations=len(self.violations))
        os.makedirs(EVID, exist_ok=True)
        with open(os.path.join(EVID, self.prop + ".json"), "w") as f:
            json.dump(ev, f, indent=1)
        for d in self.diverged[:20]:
            print("MODEL-DIVERGENCE: property=%s %s" % (self.prop, d))
        for k, (n, f) in self.known_hits.items():
            print("KNOWN-FINDING: property=%s %s [%s, %d case(s) in this run]" % (self.prop, f["what"], k, n))
        for v in self.violations[:int(os.environ.get("KV_MAXVIOL", "20"))]:
            print("VIOLATION property=%s replay=%s  (%s)" % (self.prop, v["replay"], v["what"]))
        print("%s %s: %d evaluations, %d distinct non-trivial, %d TLC states, %d traces validated, %d violations, %.1fs"
              % (self.prop, self.tier, self.evaluations, len(self.nontrivial), self.states, self.traces, len(self.violations), wall))
        return 1 if self.violations else 0


def _match(pattern, sig):
    """every key of pattern must be present in sig; values: equal, or list (membership), or {"min":..,"max":..}"""
    if not pattern:
        return False
    for k, v in pattern.items():
        if k not in sig:
            return False
        s = sig[k]
        if isinstance(v, dict):
            if "min" in v and not s >= v["min"]:
                return False
            if "max" in v and not s <= v["max"]:
                return False
        elif isinstance(v, list):
            if isinstance(s, list):
                if not set(s) <= set(v):
                    return False
            elif s not in v:
                return False
        else:
            if s != v:
                return False
    return True


def save_replay(prop, name, files):
    """copy the files of a failing case to /verif/work/replay/<prop>/<name>/ and return that path"""
    d = os.path.join(WORK, "replay", prop, name)
    os.makedirs(d, exist_ok=True)
    for f in files:
        if f and os.path.exists(f):
            shutil.copy(f, d)
    return d


def seed_from_env(default=1):
    try:
        return int(os.environ.get("VERIF_SEED", default))
    except ValueError:
        return default


# --------------------------------------------------------------------------
# small helpers for generators

def asc(s):
    return [ord(c) for c in s]


def fasta(records, width=60, gapmap=None):
    out = []
    for name, seq in records:
        out.append(">" + name)
        if width and width > 0:
            for i in range(0, max(len(seq), 1), width):
                out.append(seq[i:i + width])
        else:
            out.append(seq)
    return "\n".join(out) + "\n"


def parse_fasta_file(path):
    """generic tokenizer: header lines -> names, other lines concatenated. No alignment knowledge."""
    names, rows = [], []
    with open(path, "rb") as f:
        for line in f.read().split(b"\n"):
            if line.startswith(b">"):
                names.append(list(line[1:]))
                rows.append([])
            elif rows:
                rows[-1].extend(list(line.strip()))
    return names, rows
