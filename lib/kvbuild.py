"""Build /repo's current working tree into /verif/build/<variant>/ (never a copy of the sources).

Variants:
  rel    gcc -O2 -fopenmp -mavx2 -DKALIGN_VERIF          (libgomp)
  san    clang -O1 ASan+UBSan -fopenmp=libomp -DKALIGN_VERIF
  noomp  gcc -O2 without OpenMP, -DKALIGN_VERIF
  noavx  gcc -O2 -fopenmp -DNOHAVE_AVX2 -DKALIGN_VERIF
  off    gcc -O2 -fopenmp -mavx2, guard OFF (library + CLI only)
The source list is taken from /repo/lib/CMakeLists.txt so that a change adding a
source file is followed. A content hash of all inputs makes rebuilds incremental.
"""
import hashlib, os, re, subprocess, sys, json, glob
from concurrent.futures import ThreadPoolExecutor

REPO = os.environ.get("KV_REPO", "/repo")
VERIF = os.path.dirname(os.path.dirname(os.path.abspath(__file__)))
BUILD = os.path.join(VERIF, "build")

VARIANTS = {
    "rel":   dict(cc="gcc",   flags="-O2 -g -fopenmp -DHAVE_OPENMP -mavx2 -DHAVE_AVX2 -DKALIGN_VERIF", ld="-fopenmp"),
    "san":   dict(cc="clang", flags="-O1 -g -fno-omit-frame-pointer -fsanitize=address,undefined -fno-sanitize-recover=undefined -fopenmp=libomp -DHAVE_OPENMP -mavx2 -DHAVE_AVX2 -DKALIGN_VERIF",
                  ld="-fsanitize=address,undefined -fopenmp=libomp"),
    "tsan":  dict(cc="clang", flags="-O1 -g -fno-omit-frame-pointer -fsanitize=thread -fopenmp=libomp -DHAVE_OPENMP -mavx2 -DHAVE_AVX2 -DKALIGN_VERIF",
                  ld="-fsanitize=thread -fopenmp=libomp"),
    "noomp": dict(cc="gcc",   flags="-O2 -g -mavx2 -DHAVE_AVX2 -DKALIGN_VERIF -Wno-unknown-pragmas", ld=""),
    "noavx": dict(cc="gcc",   flags="-O2 -g -fopenmp -DHAVE_OPENMP -DNOHAVE_AVX2 -DKALIGN_VERIF", ld="-fopenmp"),
    "off":   dict(cc="gcc",   flags="-O2 -g -fopenmp -DHAVE_OPENMP -mavx2 -DHAVE_AVX2", ld="-fopenmp"),
}
COMMON = '-std=gnu11 -fPIC -DNDEBUG -DKALIGN_PACKAGE_VERSION=\\"3.4.1\\" -DKALIGN_PACKAGE_NAME=\\"kalign\\" -w'


def lib_sources():
    txt = open(os.path.join(REPO, "lib", "CMakeLists.txt")).read()
    m = re.search(r"set\(source_files(.*?)\)", txt, re.S)
    out = []
    for line in m.group(1).splitlines():
        line = line.split("#")[0].strip()
        if line.endswith(".c"):
            out.append(os.path.join(REPO, "lib", line))
    return out


def _hash_inputs(variant, extra):
    h = hashlib.sha256()
    h.update(json.dumps(VARIANTS[variant], sort_keys=True).encode())
    h.update(COMMON.encode())
    files = sorted(glob.glob(os.path.join(REPO, "lib", "src", "*.[ch]")) + glob.glob(os.path.join(REPO, "lib", "include", "kalign", "*.h"))
                   + glob.glob(os.path.join(REPO, "src", "*.[ch]")) + glob.glob(os.path.join(REPO, "src", "*.in")) + glob.glob(os.path.join(REPO, "lib", "src", "*.in"))
                   + [os.path.join(REPO, "lib", "CMakeLists.txt")] + extra)
    for f in files:
        h.update(f.encode())
        with open(f, "rb") as fh:
            h.update(fh.read())
    return h.hexdigest()


def run(cmd):
    p = subprocess.run(cmd, shell=True, stdout=subprocess.PIPE, stderr=subprocess.STDOUT, text=True)
    if p.returncode != 0:
        raise RuntimeError("build command failed: %s\n%s" % (cmd, p.stdout[-4000:]))
    return p.stdout


def build(variant, quiet=True):
    v = VARIANTS[variant]
    out = os.path.join(BUILD, variant)
    os.makedirs(os.path.join(out, "obj"), exist_ok=True)
    harness = [os.path.join(VERIF, "harness", "kvdrive.c")]
    stamp = os.path.join(out, "stamp")
    hv = _hash_inputs(variant, harness if variant != "off" else [])
    if os.path.exists(stamp) and open(stamp).read() == hv and os.path.exists(os.path.join(out, "kalign")):
        return out
    # several checks may be started side by side on a changed tree: one of them builds, the others wait and find the stamp
    import fcntl
    with open(os.path.join(out, ".lock"), "w") as lk:
        fcntl.flock(lk, fcntl.LOCK_EX)
        if os.path.exists(stamp) and open(stamp).read() == hv and os.path.exists(os.path.join(out, "kalign")):
            return out
        return _build_locked(variant, v, out, harness, stamp, hv, quiet)


def _build_locked(variant, v, out, harness, stamp, hv, quiet):
    if os.path.exists(stamp):
        os.remove(stamp)
    inc = os.path.join(out, "inc")
    os.makedirs(inc, exist_ok=True)
    incs = "-I%s -I%s -I%s -I%s" % (inc, os.path.join(REPO, "lib", "include"), os.path.join(REPO, "lib", "src"), os.path.join(REPO, "src"))
    srcs = lib_sources()
    objs = []
    cmds = []
    for s in srcs:
        o = os.path.join(out, "obj", os.path.basename(s)[:-2] + ".o")
        objs.append(o)
        cmds.append("%s %s %s %s -c %s -o %s" % (v["cc"], v["flags"], COMMON, incs, s, o))
    with ThreadPoolExecutor(max_workers=16) as ex:
        list(ex.map(run, cmds))
    lib = os.path.join(out, "libkalign.a")
    if os.path.exists(lib):
        os.remove(lib)
    run("ar rcs %s %s" % (lib, " ".join(objs)))
    cli = [os.path.join(REPO, "src", "run_kalign.c"), os.path.join(REPO, "src", "parameters.c")]
    run("%s %s %s %s %s %s -o %s %s -lm -lpthread" % (v["cc"], v["flags"], COMMON, incs, " ".join(cli), lib, os.path.join(out, "kalign.new"), v["ld"]))
    os.replace(os.path.join(out, "kalign.new"), os.path.join(out, "kalign"))
    if variant != "off":
        run("%s %s %s %s %s %s -o %s %s -lm -lpthread" % (v["cc"], v["flags"], COMMON, incs, harness[0], lib, os.path.join(out, "kvdrive.new"), v["ld"]))
        os.replace(os.path.join(out, "kvdrive.new"), os.path.join(out, "kvdrive"))
    open(stamp, "w").write(hv)
    if not quiet:
        print("built", variant, "->", out)
    return out


if __name__ == "__main__":
    vs = sys.argv[1:] or ["rel"]
    for x in vs:
        build(x, quiet=False)
