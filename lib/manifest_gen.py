#!/usr/bin/env python3
"""Regenerates /verif/MANIFEST.json from the table below (single source of truth for the interface)."""
import json, os, subprocess
VERIF = os.path.dirname(os.path.dirname(os.path.abspath(__file__)))

CHECKS = {
 "C01": dict(technique="TLC model checking of Weave (all trees/paths, small bounds) and of the end-to-end model (MC_Aligner: Integrity over all small inputs; twin rejected) + TLC trace validation of recorded merges and outputs",
             text="MC_Weave: every tree shape over 3-4 leaves and every valid path keeps the integrity invariants; WeaveTrace: every recorded merge, the final object, every written file and the array API result of hundreds of generated executions are checked by TLC against the same invariants (row count/order/name, equal length, degap = input, no all-gap column).",
             note="exhaustive only for the model bounds; real executions are sampled (generated families, exhaustive tiny inputs); hooks and file tokenizer trusted", ref="DESIGN 5.C01"),
 "C10": dict(technique="TLC model checking of Weave!MergePreserves + TLC trace validation of every recorded merge",
             text="MC_Weave proves projection stability for all valid paths on small trees; WeaveTrace evaluates, after every recorded merge of real executions, that both child groups projected out of the logged gap vectors equal their snapshots.",
             note="step-wise validation bounded by trace size (full arrays logged); larger runs only end-state", ref="DESIGN 5.C10"),
 "C09": dict(technique="TLC lemmas over Params.tla + TLC trace validation of the complete aln_param_init table, kalign_run's parameters in force and traced CLI runs",
             text="Params.tla states the documented table and the override rule; TLC checks its lemmas (explicit default = default, each penalty alone, reject iff mismatch). ParamsTrace validates every entry of the finite table biotype x type x override values returned by the real aln_param_init (including the full matrix), the parameters the kernels actually read in kalign_run, the type constant and penalties that each documented --type word / --gpo/--gpe/--tgpe reaches kalign_run with (CLI traced through KALIGN_VERIF_TRACE), and explicit-default = default outputs.",
             note="table enumeration is complete for the listed override values (thorough); matrices transcribed once from the source as the documented reference; float penalties compared in 0.1 units", ref="DESIGN 5.C09"),
 "C14": dict(technique="TLC lemmas over Alphabet.tla, TLC validation of the real code tables, TLC-validated relational traces (gap pattern equality) over case and T/U masks",
             text="Alphabet.tla states the residue classes; AlphabetTrace checks the five real 128-entry tables for case and T/U blindness (complete); RelateTrace checks, for all 2^k case masks and T/U masks of tiny inputs and seeded masks of generated inputs of every type, that the gap pattern equals the base run's and output letters equal the variant's input letters.",
             note="tables complete; end-to-end masks exhaustive only for tiny inputs, sampled otherwise", ref="DESIGN 5.C14"),
 "C02": dict(technique="TLC model checking of an OpenMP task model (all schedules, small bounds) and of the k-means recursion (Bisect: termination, partition; twin does not terminate) + TLC trace validation of fork/join order, data-flow digests and k-means splits on real runs + TLC-validated output identity across configurations",
             text="TaskTree.tla models spawn/taskwait/tied-task scheduling; TLC explores every schedule of kalign's three fork/join islands for 2-3 threads (twins without taskwait must fail). TaskTreeTrace checks on every recorded execution that no merge begins before both children ended, forward and backward ended before the meetup, restarts ended before the reduction, and that each reader saw exactly the digest its producers wrote. RelateTrace requires identical output across thread counts 1..64, nesting levels, wait policies, CPU sets, perturbed schedules, and the build without OpenMP.",
             note="real schedules are sampled; only the model is explored exhaustively; hook order relies on one mutex-protected sequence counter", ref="DESIGN 5.C02"),
 "C03": dict(technique="TLC-validated relational traces: column-membership equality over permutations of the input records",
             text="For each sequence set the harness runs several record orders (all n! for tiny inputs with ties, structured and random permutations for generated inputs on both sides of the 100-sequence switch); RelateTrace requires the same set of columns as sets of (name, residue index).",
             note="permutations sampled except for tiny inputs; names distinct by construction", ref="DESIGN 5.C03"),
 "C06": dict(technique="TLC model checking of writer o reader = identity on all small alignments (MC_RoundTrip) + TLC trace validation of write/read round trips and conversions against the given alignment (RoundTripTrace)",
             text="For synthetic alignments (the generator's rows are the reference) and alignments produced by runs, every file kalign writes (3 formats) is read back and every read-back copy is converted into 3 formats and read back again; TLC requires row count, order, names, residues and gap positions to equal the reference (12 comparisons per alignment), including widths at multiples of 60, names up to 200 characters, and gap runs at the reader's 512-residue growth boundaries.",
             note="sampled alignments; conversion = read + finalise + write (what kalign_msa_compare does internally); one known finding (gap-free alignments cannot be converted)", ref="DESIGN 5.C06"),
 "C08": dict(technique="TLC model checking of the end-to-end and profile models (MC_Aligner CopiesFlat, MC_Progressive CopiesMergeFlat: copies merge without gaps for every small input / group size) + TLC-validated relational traces (Relate!NoDash) over identical-sequence inputs",
             text="k copies of one string for many k (up to 500), lengths (1..5000 in thorough), compositions (uniform, single letter incl. all-N/all-X/all-B/all-Z/all-U, IUPAC mixtures, mixed case), admissible types and thread counts; TLC requires a successful run without any gap character.",
             note="sampled grid; the scoring-model certificate (DiagonalUnique) is part of C07's Scoring module", ref="DESIGN 5.C08"),
 "C11": dict(technique="TLC model checking of the blocked bit-vector algorithm (generic word width) against the column DP + TLC-computed edit-distance oracle on the real kernels' return values",
             text="Myers.tla states semi-global edit distance (fold DP) and the blocked bit-parallel algorithm generically in the word width; TLC proves them equal for every text/pattern over small alphabets at widths 2-4 incl. the cap (twin with wrong padding must fail). MyersTrace compares bpm_block, bpm and bpm_256 of the real code, builds with and without AVX2, with the TLC-computed distance on exhaustive small pairs and seeded pairs around every 64-symbol boundary and the 1024 cap.",
             note="word width 64 itself is validated by return values, not by state refinement; long inputs sampled", ref="DESIGN 5.C11"),
 "C12": dict(technique="TLC model checking of the UPGMA machine (MC_GuideTree: copies at minimal distance form a clade; twin rejected) + TLC-validated relational traces (Relate!DupRows) with the containment premise evaluated by the specification + logged guide trees compared with the machine (GuideTreeTrace)",
             text="Inputs of 2..99 sequences with planted duplicates; the spec evaluates the premise (no other sequence contains or is contained in a duplicated one on the guide-tree alphabet of Alphabet.tla) on the object as read and requires equal rows for equal sequences; cases failing the premise are skipped and counted.",
             note="sampled inputs; premise uses substring containment on class codes", ref="DESIGN 5.C12"),
 "C15": dict(technique="TLC evaluation of Writer!WellFormed on tokenised layouts of every written file (WriterTrace), line-by-line comparison with the constructive writer model, design-level round trip (MC_RoundTrip)",
             text="Writer.tla states the layout of FASTA, Clustal and MSF files (wrapping at 60, block count and content, every sequence in every block, MSF declared length, per-row and total GCG checksums, molecule type); every file written from synthetic and run-produced alignments (widths incl. multiples of 60, names to 200 characters) is tokenised into fields and checked by TLC against the rows, names and biotype of the object it was written from.",
             note="tokenizer trusted to split fields only; date and file name in the MSF header are not checked", ref="DESIGN 5.C15"),
 "C17": dict(technique="TLC lemmas over Compare.tla + TLC-computed exact fraction against kalign_msa_compare's result (CompareTrace)",
             text="Compare.tla defines the score as an exact fraction; TLC checks its lemmas (range, 100 on equivalent alignments, invariance under all-gap columns) over all pairs of small alignments; CompareTrace recomputes the fraction for the two alignments handed to every real call (enumerated tiny pairs from files in 3 formats, run-vs-run, run-vs-itself, permuted/padded/perturbed copies, mixed case) and requires agreement within 1e-3, 100 on equivalent alignments, and the range [0,100].",
             note="float score compared in 1e-4 units with 1e-3 tolerance; sampled except tiny pairs", ref="DESIGN 5.C17"),
 "C13": dict(technique="TLC model checking of the histogram rule against the requirement over all small compositions + TLC validation of kalign's decision on concretised compositions (BiotypeTrace)",
             text="Biotype.tla states the requirement on residue letters and a model of the code's likelihood rule; TLC shows over all class-count vectors up to 9 residues where they agree (the U-rich region is the documented known finding; a twin config exhibits it). BiotypeTrace checks kalign's decision (after kalign_read_input for FASTA/aligned FASTA/Clustal/MSF and inside kalign()) for every premise-satisfying vector up to 9-12 residues, large compositions with reordered/renamed copies, gap-heavy alignments and inputs of more than 512 records.",
             note="compositions enumerated by letter class, letters within a class sampled; one known finding (U-rich proteins)", ref="DESIGN 5.C13"),
 "C04": dict(technique="TLC-validated relational traces (Relate!SameRows) over re-presentations generated from one record set + line-level reader model (Reader/ReaderTrace) on every presentation file",
             text="Each set of named sequences is presented as bare FASTA (reference) and as FASTA at other widths, unwrapped with blank lines, aligned FASTA with random gap insertions up to 20 gap characters per residue and three gap symbols, Clustal and MSF variants, splits over 2..n files in mixed formats, alignments wider than 8192 columns unwrapped, and through the command line (-i, positional, stdin, stdin + file); TLC requires identical names and rows in every member of the group.",
             note="presentations are generated inputs (sampled); the reader itself is bound by the relation, not by a line-level reader model", ref="DESIGN 5.C04"),
 "C05": dict(technique="TLC-enumerated input files and option vectors replayed under sanitizers and valgrind; TLC validation of the outcome protocol (ProtoTrace, CliTrace), of the line-level reader model (Reader/ReaderTrace) and of alphabet totality (AlphabetTrace); termination of the k-means recursion model-checked as a liveness property (Bisect) and its recorded splits validated (BisectTrace)",
             text="The specification decides (a) that every letter has a class in the real code tables, (b) the outcome protocol of read/run/write on every file of up to 2 lines over 27 line kinds and thousands of longer ones enumerated by TLC from FileGen.tla (success implies a well-formed object and a valid alignment of what was read; otherwise a failure status), (c) the protocol of the command line over option vectors enumerated from Cli.tla (exit 0 implies a valid alignment, failure implies non-zero exit and a message, must-fail and must-succeed classes). Memory clauses are observed on those executions by ASan, UBSan and LeakSanitizer.",
             note="memory safety is observed by sanitizers on generated executions, not decided by the model (DESIGN section 8); leaks are judged on the success path only; timeouts are confirmed at 4x", ref="DESIGN 5.C05"),
 "C07": dict(technique="TLC model checking: certificate DPs against brute force (MC_Scoring), controller (MC_Hirschberg), and C07 itself on the constructive kernel models (MC_Kernel, MC_Progressive: certified optimum returned for sequences and groups; twins rejected) + TLC-computed uniqueness certificates on planted cases (ScoringTrace) + every recorded split re-derived from the model (HirschTrace, KernelTrace, ProgressiveTrace)",
             text="Scoring.tla states kalign's affine scoring model with the end-gap charge as an interval; TLC shows the forward/backward fold DPs and the through-scores equal brute force over all alignments of tiny sequences. For every planted case TLC computes, with the parameters the kernels actually read, whether the planted alignment beats every other alignment under every admissible end-gap charge by more than the tie-break and float slack; only then kalign must return exactly that alignment (pairs and groups of 1..3 identical copies, all types, user penalties, both sides of the 500-column switch).",
             note="cases without a certificate are skipped and counted; the interval model makes certification conservative for terminal overhangs", ref="DESIGN 5.C07"),
 "C16": dict(technique="TLC enumeration of API histories with dependency chains (Api.tla) + TLC comparison of each call's result with its chain replayed in a fresh process (ApiTrace), long histories under both the sanitizer's and the plain allocator + LeakSanitizer",
             text="Api.tla models the object life cycle; TLC enumerates every well-formed history of 3 (quick) or 4 calls over 2 handles, 2 inputs, 2 parameter sets and 2 formats together with the chain of calls each result may depend on. Each history runs in one process; every call's observable result (return code, projected object, rows, score, file bytes) must equal the result of its chain in a fresh process. Seeded long histories and a sample of the enumerated ones run under LeakSanitizer with all objects freed.",
             note="histories bounded by MaxCalls; the projection of struct msa is trusted", ref="DESIGN 5.C16"),
}
NOT_YET = {}
ALL = ["C%02d" % i for i in range(1, 18)]


def main():
    hooks_commits = subprocess.run(["git", "-C", "/repo", "log", "--format=%H %s"], stdout=subprocess.PIPE, text=True).stdout.splitlines()
    hooks_commits = [l.split()[0] for l in hooks_commits if "verif hooks" in l]
    checks = []
    for pid in ALL:
        if pid not in CHECKS:
            continue
        c = CHECKS[pid]
        checks.append(dict(property_id=pid,
                           quick_cmd="./bin/check %s --tier quick" % pid,
                           thorough_cmd="./bin/check %s --tier thorough" % pid,
                           evidence_file="/verif/evidence/%s.json" % pid,
                           replay_cmd_template="./bin/check %s --replay {path}" % pid,
                           engine="tlc",
                           level_claimed=dict(category="model_checking", text=c["text"], design_ref=c["ref"]),
                           level_note=c["note"], technique=c["technique"]))
    na = [dict(property_id=p, reason=NOT_YET.get(p, "check not built yet in this round (planned: see DESIGN.md section 5)")) for p in ALL if p not in CHECKS]
    m = dict(version=1,
             setup_cmd="./bin/setup",
             hooks=dict(guard="KALIGN_VERIF", enable="lib/kvbuild.py compiles /repo/lib/src/*.c with -DKALIGN_VERIF into /verif/build/<variant>/ and links harness/kvdrive.c against it",
                        baseline_off_cmd="./bin/baseline_off", source_commits=hooks_commits, add_only=True),
             engines=[dict(name="tlc", path="/opt/veriftools/tla/tla2tools.jar", serves_properties=sorted(CHECKS), kind_free_text="TLA+ model checker: exhaustive MC of the spec modules and trace validation of executions recorded by harness/kvdrive")],
             checks=checks, not_applicable=na,
             notes="Technique family: explicit TLA+ specification (spec/*.tla) checked with TLC, bound to the C code by trace validation and spec-generated replay. See DESIGN.md.")
    json.dump(m, open(os.path.join(VERIF, "MANIFEST.json"), "w"), indent=1)
    print("MANIFEST.json: %d checks, %d not applicable" % (len(checks), len(na)))


if __name__ == "__main__":
    main()
