#!/usr/bin/env python3
"""Regenerates /verif/MANIFEST.json from the table below (single source of truth for the interface)."""
import json, os, subprocess
VERIF = os.path.dirname(os.path.dirname(os.path.abspath(__file__)))

CHECKS = {
 "C01": dict(technique="TLC model checking of Weave (all trees/paths, small bounds) + TLC trace validation of recorded merges and outputs",
             text="MC_Weave: every tree shape over 3-4 leaves and every valid path keeps the integrity invariants; WeaveTrace: every recorded merge, the final object, every written file and the array API result of hundreds of generated executions are checked by TLC against the same invariants (row count/order/name, equal length, degap = input, no all-gap column).",
             note="exhaustive only for the model bounds; real executions are sampled (generated families, exhaustive tiny inputs); hooks and file tokenizer trusted", ref="DESIGN 5.C01"),
 "C10": dict(technique="TLC model checking of Weave!MergePreserves + TLC trace validation of every recorded merge",
             text="MC_Weave proves projection stability for all valid paths on small trees; WeaveTrace evaluates, after every recorded merge of real executions, that both child groups projected out of the logged gap vectors equal their snapshots.",
             note="step-wise validation bounded by trace size (full arrays logged); larger runs only end-state", ref="DESIGN 5.C10"),
 "C09": dict(technique="TLC lemmas over Params.tla + TLC trace validation of the complete aln_param_init table, kalign_run's parameters in force and traced CLI runs",
             text="Params.tla states the documented table and the override rule; TLC checks its lemmas (explicit default = default, each penalty alone, reject iff mismatch). ParamsTrace validates every entry of the finite table biotype x type x override values returned by the real aln_param_init (including the full matrix), the parameters the kernels actually read in kalign_run, the type constant and penalties that each documented --type word / --gpo/--gpe/--tgpe reaches kalign_run with (CLI traced through KALIGN_VERIF_TRACE), and explicit-default = default outputs.",
             note="table enumeration is complete for the listed override values (thorough); matrices transcribed once from the source as the documented reference; float penalties compared in 0.1 units", ref="DESIGN 5.C09"),
 "C14": dict(technique="TLC lemmas over Alphabet.tla, TLC validation of the real code tables, TLC-validated relational traces (gap pattern equality) over case and T/U masks",
             text="Alphabet.tla states the residue classes; AlphabetTrace checks the five real 128-entry tables for case and T/U blindness (complete); RelateTrace checks, for all 2^k case masks and T/U masks of tiny inputs and seeded masks of generated inputs of every type, that the gap pattern equals the base run's and output letters equal the variant's input letters.",
             note="tables complete; end-to-end masks exhaustive only for tiny inputs, sampled otherwise", ref="DESIGN 5.C14"),
 "C02": dict(technique="TLC model checking of an OpenMP task model (all schedules, small bounds) + TLC trace validation of fork/join order and data-flow digests on real runs + TLC-validated output identity across configurations",
             text="TaskTree.tla models spawn/taskwait/tied-task scheduling; TLC explores every schedule of kalign's three fork/join islands for 2-3 threads (twins without taskwait must fail). TaskTreeTrace checks on every recorded execution that no merge begins before both children ended, forward and backward ended before the meetup, restarts ended before the reduction, and that each reader saw exactly the digest its producers wrote. RelateTrace requires identical output across thread counts 1..64, nesting levels, wait policies, CPU sets, perturbed schedules, and the build without OpenMP.",
             note="real schedules are sampled; only the model is explored exhaustively; hook order relies on one mutex-protected sequence counter", ref="DESIGN 5.C02"),
 "C03": dict(technique="TLC-validated relational traces: column-membership equality over permutations of the input records",
             text="For each sequence set the harness runs several record orders (all n! for tiny inputs with ties, structured and random permutations for generated inputs on both sides of the 100-sequence switch); RelateTrace requires the same set of columns as sets of (name, residue index).",
             note="permutations sampled except for tiny inputs; names distinct by construction", ref="DESIGN 5.C03"),
}
NOT_YET = {}
ALL = ["C%02d" % i for i in range(1, 18)]


def main():
    hooks_commits = subprocess.run(["git", "-C", "/repo", "log", "--format=%H %s"], stdout=subprocess.PIPE, text=True).stdout.splitlines()
    hooks_commits = [l.split()[0] for l in hooks_commits if "verif hooks" in l]
    checks = []
    for pid in ALL:
        if pid not in CHECKS:
            continue
        c = CHECKS[pid]
        checks.append(dict(property_id=pid,
                           quick_cmd="./bin/check %s --tier quick" % pid,
                           thorough_cmd="./bin/check %s --tier thorough" % pid,
                           evidence_file="/verif/evidence/%s.json" % pid,
                           replay_cmd_template="./bin/check %s --replay {path}" % pid,
                           engine="tlc",
                           level_claimed=dict(category="model_checking", text=c["text"], design_ref=c["ref"]),
                           level_note=c["note"], technique=c["technique"]))
    na = [dict(property_id=p, reason=NOT_YET.get(p, "check not built yet in this round (planned: see DESIGN.md section 5)")) for p in ALL if p not in CHECKS]
    m = dict(version=1,
             setup_cmd="./bin/setup",
             hooks=dict(guard="KALIGN_VERIF", enable="lib/kvbuild.py compiles /repo/lib/src/*.c with -DKALIGN_VERIF into /verif/build/<variant>/ and links harness/kvdrive.c against it",
                        baseline_off_cmd="./bin/baseline_off", source_commits=hooks_commits, add_only=True),
             engines=[dict(name="tlc", path="/opt/veriftools/tla/tla2tools.jar", serves_properties=sorted(CHECKS), kind_free_text="TLA+ model checker: exhaustive MC of the spec modules and trace validation of executions recorded by harness/kvdrive")],
             checks=checks, not_applicable=na,
             notes="Technique family: explicit TLA+ specification (spec/*.tla) checked with TLC, bound to the C code by trace validation and spec-generated replay. See DESIGN.md.")
    json.dump(m, open(os.path.join(VERIF, "MANIFEST.json"), "w"), indent=1)
    print("MANIFEST.json: %d checks, %d not applicable" % (len(checks), len(na)))


if __name__ == "__main__":
    main()
