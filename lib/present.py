"""Presenters: write named (possibly gapped) rows as FASTA / Clustal / MSF text with layout knobs (inputs for the readers)."""
import random


def to_fasta(names, rows, width=60, blank_lines=False, trailing=False, gapchar="-"):
    out = []
    for n, r in zip(names, rows):
        r = r.replace("-", gapchar)
        out.append(">" + n)
        if width and width > 0:
            for i in range(0, max(1, len(r)), width):
                out.append(r[i:i + width] + ("  " if trailing else ""))
        else:
            out.append(r)
        if blank_lines:
            out.append("")
    return "\n".join(out) + "\n"


def pad_rows(rows, gapchar="-"):
    W = max(len(r) for r in rows)
    return [r + gapchar * (W - len(r)) for r in rows]


def to_clustal(names, rows, width=60, header="CLUSTAL W (1.83) multiple sequence alignment", consensus=False, numbers=False, gapchar="-"):
    rows = [r.replace("-", gapchar) for r in pad_rows(rows)]
    W = len(rows[0])
    nl = max(len(n) for n in names) + 3
    out = [header, "", ""]
    width = width if width and width > 0 else max(W, 1)
    for s in range(0, max(W, 1), width):
        for n, r in zip(names, rows):
            seg = r[s:s + width]
            line = n.ljust(nl) + seg
            if numbers:
                line += " %d" % min(W, s + width)
            out.append(line)
        if consensus:
            out.append(" " * nl + "".join(" " for _ in range(min(width, W - s))))
        out.append("")
    return "\n".join(out) + "\n"


def to_msf(names, rows, width=60, protein=True, gapchar=".", groups_of_ten=False):
    rows = [r.replace("-", gapchar) for r in pad_rows(rows)]
    W = len(rows[0])
    nl = max(len(n) for n in names) + 2
    out = ["!!AA_MULTIPLE_ALIGNMENT 1.0" if protein else "!!NA_MULTIPLE_ALIGNMENT 1.0", "",
           " test.msf  MSF: %d  Type: %s  January 01, 2000 00:00  Check: 0  .." % (W, "P" if protein else "N"), ""]
    for n in names:
        out.append(" Name: %s  Len: %5d  Check: %4d  Weight: 1.00" % (n.ljust(nl), W, 0))
    out += ["", "//", ""]
    width = width if width and width > 0 else max(W, 1)
    for s in range(0, max(W, 1), width):
        for n, r in zip(names, rows):
            seg = r[s:s + width]
            if groups_of_ten:
                seg = " ".join(seg[i:i + 10] for i in range(0, len(seg), 10))
            out.append(n.ljust(nl) + seg)
        out.append("")
    return "\n".join(out) + "\n"


def write(path, text):
    # latin-1: one byte per character, so that characters 128..255 become the stray non-ASCII bytes some cases plant
    with open(path, "w", encoding="latin-1") as f:
        f.write(text)
    return path
