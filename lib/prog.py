"""Whole progressive alignments walked merge by merge through the constructive model (GKernel / Profile / ProgressiveTrace).
Diagnostic binding: a mismatch is a MODEL-DIVERGENCE, never a property verdict."""
import os, random
import kv, gen


def scenarios(rng, tier):
    S = []
    n = 16 if tier == "quick" else 100
    for i in range(n):
        kind = "dna" if i % 4 else "protein"
        alpha = gen.DNA if kind == "dna" else gen.AA
        ns = rng.choice([2, 3, 4, 5, 6, 8]) if i % 8 else rng.choice([10, 14])
        L = rng.choice([12, 20, 30, 45, 60]) if i % 5 else rng.choice([80, 110])
        shape = i % 3
        if shape == 0:
            seqs = gen.family(rng, ns, L, alpha, sub=rng.choice([0.05, 0.15, 0.3]), indel=rng.choice([0.03, 0.08, 0.15]))
        elif shape == 1:
            base = gen.family(rng, max(2, ns // 2), L, alpha, sub=0.2, indel=0.1)
            seqs = [rng.choice(base) for _ in range(ns)]            # duplicates: profiles of identical rows
        else:
            seqs = gen.family(rng, ns, L, alpha, sub=0.1, indel=0.05)
            k = rng.randrange(ns)
            seqs[k] = seqs[k][:max(1, len(seqs[k]) // 4)]            # one short sequence: long terminal gaps inside profiles
        if kind == "dna":
            ty = [0, 1, 0, 5, 2][i % 5]
            pens = (-1, -1, -1) if i % 3 else rng.choice([(8, 6, 20), (12, 1, 0), (3, 2, 9), (20, 0, 5)])
        else:
            seqs = [s if sum(c in "DEFHIKLMPQRSVWY" for c in s) * 4 >= len(s) else s + "LKEF" for s in seqs]
            if i % 8 == 0:
                # ambiguity codes B, Z, X: residue codes 20..22 in profile columns
                seqs = ["".join(rng.choice("BZX") if rng.random() < 0.12 else c for c in s) for s in seqs]
            ty = [3, 4, 5][i % 3]
            pens = (-1, -1, -1) if i % 2 else rng.choice([(10, 2, 1), (6, 1, 4)])
        S.append(dict(id="g%d" % i, seqs=seqs, type=ty, pens=pens))
    return S


def run(V, wd, rng, tier, per_batch=4):
    S = scenarios(rng, tier)
    batches = [S[i:i + per_batch] for i in range(0, len(S), per_batch)]

    def do(bi):
        bwd = os.path.join(wd, "g%d" % bi)
        os.makedirs(bwd, exist_ok=True)
        lines = ["level 1", "hserial 1"]
        for k, s in enumerate(batches[bi]):
            fa = os.path.join(bwd, "s%d.fa" % k)
            open(fa, "w").write(kv.fasta([("n%02d" % i, x) for i, x in enumerate(s["seqs"])]))
            lines += ["note %s" % s["id"], "read 0 %s" % fa, "dump 0 in full", "run 0 1 %d %g %g %g" % (s["type"], s["pens"][0], s["pens"][1], s["pens"][2]), "dump 0 out full", "free 0"]
        tp, rc, err = kv.run_kvdrive("\n".join(lines) + "\n", bwd, "t", timeout=300)
        keep = [e for e in kv.read_trace(tp) if e.get("e") in ("Params", "Sorted", "MergeBegin", "HSplit", "MergeEnd", "Note") or (e.get("e") == "Obj" and e.get("tag") in ("in", "out"))]
        kp = os.path.join(bwd, "p.ndjson")
        kv.write_ndjson(kp, keep)
        res = kv.run_tlc("ProgressiveTrace", "ProgressiveTrace.cfg", bwd, trace=kp, timeout=3000, heap="4g", name="prog")
        return bi, rc, res, sum(1 for e in keep if e.get("e") == "HSplit")

    for bi, rc, res, nsplit in kv.pmap(do, range(len(batches)), workers=12):
        V.add_tlc(res)
        if rc != 0 or not res.accepted:
            V.divergence("progressive walk, batch %d: harness rc=%s, trace consumed=%s" % (bi, rc, res.accepted))
        merges = [x for x in res.prints if x.startswith('<<"KVMERGE"')]
        for kind in (0, 1, 2):
            key = "progressive_merges_walked_kind%d" % kind
            V.extra[key] = V.extra.get(key, 0) + sum(1 for x in merges if x.split(",")[2] == str(kind))
        V.extra["progressive_alignments_rows_compared"] = V.extra.get("progressive_alignments_rows_compared", 0) + sum(1 for x in res.prints if x.startswith('<<"KVROWS"'))
        V.extra["progressive_splits_rederived"] = V.extra.get("progressive_splits_rederived", 0) + nsplit
        V.extra["progressive_merges_skipped"] = V.extra.get("progressive_merges_skipped", 0) + sum(1 for x in res.prints if x.startswith('<<"KVSKIP"'))
        V.extra["progressive_too_close_to_call_in_float"] = V.extra.get("progressive_too_close_to_call_in_float", 0) + sum(1 for x in res.prints if x.startswith('<<"KVNOTE"'))
        for (ln, sid, items) in res.divs:
            info = [x for x in res.prints if x.startswith('<<"KVINFO",%d,' % ln)]
            V.divergence("progressive walk, batch %d event %d: %s %s" % (bi, ln, ",".join(sorted(items)), info[0][:220] if info else ""))
