"""Relational (metamorphic) checks: groups of executions related by Relate.tla, validated by RelateTrace."""
import os, json
import kv


def member_lines(m, wd, tag):
    """m: dict(names, seqs, type, gpo, gpe, tgpe, threads, [api], [files]: list of prepared input files, [env])"""
    if m.get("api") == "array":
        arr = os.path.join(wd, tag + ".arr")
        with open(arr, "w") as f:
            for s in m["seqs"]:
                f.write(",".join(str(ord(c)) for c in s) + "\n")
        return ["kalign %s %d %d %g %g %g arr" % (arr, m["threads"], m["type"], m["gpo"], m["gpe"], m["tgpe"])]
    files = m.get("files")
    if not files:
        fa = os.path.join(wd, tag + ".fa")
        with open(fa, "w") as f:
            f.write(kv.fasta(list(zip(m["names"], m["seqs"])), width=m.get("width", 60)))
        files = [fa]
    return ["read 0 %s" % " ".join(files)] + (["dump 0 in full"] if m.get("dump_in") else []) + [
            "run 0 %d %d %g %g %g" % (m["threads"], m["type"], m.get("gpo", -1), m.get("gpe", -1), m.get("tgpe", -1)),
            "dump 0 out full", "free 0"]


def run_groups(V, groups, wd, per_batch=8, variant="rel", timeout=300, workers=12, env=None, pipeline=False, guidetree=False, heap="3g"):
    """groups: list of dict(gid, rel, prop, members=[...], [key], [nontrivial]); fills Verdict V"""
    batches = [groups[i:i + per_batch] for i in range(0, len(groups), per_batch)]

    def do(bi):
        bwd = os.path.join(wd, "r%d" % bi)
        os.makedirs(bwd, exist_ok=True)
        lines = ["level 2" if guidetree else "level 1"]
        for gi, g in enumerate(batches[bi]):
            lines.append("group %s %s %s" % (g["gid"], g["rel"], g["prop"]))
            for mi, m in enumerate(g["members"]):
                lines += member_lines(m, bwd, "g%d_m%d" % (gi, mi))
        tp, rc, err = kv.run_kvdrive("\n".join(lines) + "\n", bwd, "t", variant=variant, timeout=timeout, env=env)
        try:
            res = kv.run_tlc("RelateTrace", "RelateTrace.cfg", bwd, trace=tp, timeout=900, heap=heap)
            res.pipeline = kv.run_tlc("KalignTrace", "KalignTrace.cfg", bwd, trace=tp, timeout=900, heap="3g", name="pipe") if pipeline else None
            res.guidetree = kv.run_tlc("GuideTreeTrace", "GuideTreeTrace.cfg", bwd, trace=tp, timeout=900, heap="3g", name="gt") if guidetree else None
        except kv.Broken as e:
            return bi, rc, err, None, str(e)
        return bi, rc, err, res, None

    out = kv.pmap(do, range(len(batches)), workers=workers)
    for bi, rc, err, res, broken in out:
        bwd = os.path.join(wd, "r%d" % bi)
        if broken:
            raise kv.Broken(broken)
        V.add_tlc(res)
        if getattr(res, "pipeline", None) is not None:
            V.add_tlc(res.pipeline)
            V.extra["pipeline_events_validated"] = V.extra.get("pipeline_events_validated", 0) + res.pipeline.distinct
            for (ln, sid, items) in res.pipeline.divs:
                V.divergence("pipeline model, batch %d line %d: %s" % (bi, ln, ",".join(sorted(items))))
        if getattr(res, "guidetree", None) is not None:
            V.add_tlc(res.guidetree)
            nskip = sum(1 for x in res.guidetree.prints if x.startswith('<<"KVSKIP"'))
            V.extra["upgma_trees_compared_with_model"] = V.extra.get("upgma_trees_compared_with_model", 0) + sum(1 for x in open(os.path.join(bwd, "t.ndjson")) if x.startswith('{"e":"Tree"') and 2 <= json.loads(x).get("n", 99) <= 8) - nskip
            V.extra["distance_matrices_rederived"] = V.extra.get("distance_matrices_rederived", 0) + sum(1 for x in res.guidetree.prints if x.startswith('<<"KVDM"'))
            for key, tag in (("anchor_selections_checked", '<<"KVANCH"'), ("anchor_distance_matrices_rederived", '<<"KVDM0"'), ("kmeans_tries_checked_fixed_point", '<<"KVKM"')):
                V.extra[key] = V.extra.get(key, 0) + sum(1 for x in res.guidetree.prints if x.startswith(tag))
            for (ln, sid, items) in res.guidetree.divs:
                V.divergence("guide tree model, batch %d line %d: %s" % (bi, ln, ",".join(sorted(items))))
        failed_g = set()
        for (ln, gid, items) in res.fails:
            failed_g.add(gid)
            g = [x for x in batches[bi] if x["gid"] == gid]
            sig = dict(what=sorted(items), gid=gid)
            if g and "sig" in g[0]:
                sig.update(g[0]["sig"])
            rp = kv.save_replay(V.prop, "r%d" % bi, [os.path.join(bwd, "t.kv"), os.path.join(bwd, "t.ndjson")])
            V.violation("group %s line %d: %s" % (gid, ln, ",".join(sorted(items))), rp, sig)
        if not res.accepted or rc != 0:
            rp = kv.save_replay(V.prop, "r%d" % bi, [os.path.join(bwd, "t.kv"), os.path.join(bwd, "t.ndjson")])
            V.violation("execution not explained by the specification (harness rc=%s accepted=%s) %s" % (rc, res.accepted, err[-300:].replace("\n", " ")),
                        rp, dict(kind="unexplained", rc=rc))
        skipped = set()
        for line in res.prints:
            if line.startswith('<<"KVSKIP"'):
                parts = line.split('"')
                if len(parts) > 3:
                    skipped.add(parts[3])
        V.extra["premise_not_met_skipped"] = V.extra.get("premise_not_met_skipped", 0) + len(skipped)
        for g in batches[bi]:
            V.case(g.get("key", g["gid"]), g.get("nontrivial", True) and g["gid"] not in skipped)
            if g["gid"] not in failed_g and res.accepted:
                V.traces += len(g["members"])
    return V
