"""Exhaustive small-scope conformance: every pair (every triple) of short sequences over two letters is aligned by the real code
and every split is re-derived from the constructive model (KernelTrace / ProgressiveTrace). Diagnostic binding."""
import os, itertools, random
import kv


def words(letters, maxlen, minlen=1):
    out = []
    for L in range(minlen, maxlen + 1):
        out += ["".join(p) for p in itertools.product(letters, repeat=L)]
    return out


PARAMS = [(0, (-1, -1, -1)), (1, (-1, -1, -1)), (0, (3, 1, 9)), (0, (12, 2, 0))]


def pairs(V, wd, tier, rng):
    W = words("AC", 5)
    cases = [(a, b) for a in W for b in W if len(a) <= len(b)]
    jobs = []
    for pi, (ty, pens) in enumerate(PARAMS):
        if tier == "quick" and pi not in (0, 2):
            continue
        for k in range(0, len(cases), 120):
            jobs.append((pi, ty, pens, k, cases[k:k + 120]))
    if tier != "quick":
        # three letters, lengths up to 4
        W3 = words("ACG", 4)
        c3 = [(a, b) for a in W3 for b in W3 if len(a) <= len(b)]
        for pi in (0, 2):
            for k in range(0, len(c3), 150):
                jobs.append((pi, PARAMS[pi][0], PARAMS[pi][1], 100000 + k, c3[k:k + 150]))

    def do(job):
        pi, ty, pens, k0, cs = job
        bwd = os.path.join(wd, "sp%d_%d" % (pi, k0))
        os.makedirs(bwd, exist_ok=True)
        lines = ["level 1", "hserial 1"]
        for k, (a, b) in enumerate(cs):
            fa = os.path.join(bwd, "c%d.fa" % k)
            open(fa, "w").write(">a0\n%s\n>b0\n%s\n" % (a, b))
            lines += ["note CASE %d" % k, "read 0 %s" % fa, "run 0 1 %d %g %g %g" % (ty, pens[0], pens[1], pens[2]), "dump 0 out full", "free 0"]
        tp, rc, err = kv.run_kvdrive("\n".join(lines) + "\n", bwd, "t", timeout=300)
        out = []
        for e in kv.read_trace(tp):
            if e.get("e") == "Note" and e["text"].startswith("CASE "):
                a, b = cs[int(e["text"][5:])]
                out.append(dict(e="Case", id="x%d_%d" % (pi, k0 + int(e["text"][5:])), a=kv.asc(a), b=kv.asc(b), p=[], ka=1, kb=1))
            elif e.get("e") in ("Params", "Sorted", "HSplit") or (e.get("e") == "Obj" and e.get("tag") == "out"):
                out.append(e)
        kp = os.path.join(bwd, "k.ndjson")
        kv.write_ndjson(kp, out)
        res = kv.run_tlc("KernelTrace", "KernelTrace.cfg", bwd, trace=kp, timeout=1800, heap="3g", name="kernel")
        return job, rc, res, sum(1 for e in out if e.get("e") == "HSplit")

    for job, rc, res, ns in kv.pmap(do, jobs, workers=12):
        V.add_tlc(res)
        nskip = sum(1 for x in res.prints if x.startswith('<<"KVSKIP"'))
        V.extra["smallscope_pairs_walked"] = V.extra.get("smallscope_pairs_walked", 0) + len(job[4]) - nskip
        V.extra["smallscope_pair_splits"] = V.extra.get("smallscope_pair_splits", 0) + ns
        if rc != 0 or not res.accepted:
            V.divergence("small-scope pairs %s: harness rc=%s consumed=%s" % (job[:4], rc, res.accepted))
        for (ln, sid, items) in res.divs:
            info = [x for x in res.prints if x.startswith('<<"KVINFO",%d,' % ln)]
            V.divergence("small-scope pair %s (parameters %s): %s %s" % (sid, PARAMS[job[0]], ",".join(sorted(items)), info[0][:200] if info else ""))


def triples(V, wd, tier, rng):
    W = words("AC", 3)
    cases = [t for t in itertools.product(W, repeat=3)]
    rng.shuffle(cases)
    cases = cases[:300] if tier == "quick" else cases
    # quadruples of sequences of length 1..2: four leaves give the guide tree a choice of shapes
    quad = [t for t in itertools.product(words("AC", 2), repeat=4)]
    rng.shuffle(quad)
    cases = cases + (quad[:150] if tier == "quick" else quad)
    jobs = []
    for pi, (ty, pens) in enumerate(PARAMS[:2] if tier == "quick" else PARAMS[:3]):
        for k in range(0, len(cases), 100):
            jobs.append((pi, ty, pens, k, cases[k:k + 100]))

    def do(job):
        pi, ty, pens, k0, cs = job
        bwd = os.path.join(wd, "st%d_%d" % (pi, k0))
        os.makedirs(bwd, exist_ok=True)
        lines = ["level 2", "hserial 1"]
        for k, t in enumerate(cs):
            fa = os.path.join(bwd, "c%d.fa" % k)
            open(fa, "w").write("".join(">n%d\n%s\n" % (i, s) for i, s in enumerate(t)))
            lines += ["read 0 %s" % fa, "dump 0 in full", "run 0 1 %d %g %g %g" % (ty, pens[0], pens[1], pens[2]), "dump 0 out full", "free 0"]
        tp, rc, err = kv.run_kvdrive("\n".join(lines) + "\n", bwd, "t", timeout=300)
        keep = [e for e in kv.read_trace(tp) if e.get("e") in ("Params", "Sorted", "MergeBegin", "HSplit", "MergeEnd") or (e.get("e") == "Obj" and e.get("tag") in ("in", "out"))]
        kp = os.path.join(bwd, "p.ndjson")
        kv.write_ndjson(kp, keep)
        res = kv.run_tlc("ProgressiveTrace", "ProgressiveTrace.cfg", bwd, trace=kp, timeout=1800, heap="3g", name="prog")
        # the distance matrix and the UPGMA tree of the same runs
        gp = os.path.join(bwd, "g.ndjson")
        kv.write_ndjson(gp, [e for e in kv.read_trace(tp) if e.get("e") in ("RunBegin", "Sorted", "Dm", "Tree") or (e.get("e") == "Obj" and e.get("tag") == "in")])
        res.gt = kv.run_tlc("GuideTreeTrace", "GuideTreeTrace.cfg", bwd, trace=gp, timeout=1800, heap="3g", name="gt")
        return job, rc, res

    for job, rc, res in kv.pmap(do, jobs, workers=12):
        V.add_tlc(res)
        V.add_tlc(res.gt)
        V.extra["smallscope_distance_matrices"] = V.extra.get("smallscope_distance_matrices", 0) + sum(1 for x in res.gt.prints if x.startswith('<<"KVDM"'))
        for (ln, sid, items) in res.gt.divs:
            V.divergence("small-scope guide tree batch %s event %d: %s" % (job[:4], ln, ",".join(sorted(items))))
        V.extra["smallscope_triples_rows_compared"] = V.extra.get("smallscope_triples_rows_compared", 0) + sum(1 for x in res.prints if x.startswith('<<"KVROWS"'))
        V.extra["smallscope_triple_merges"] = V.extra.get("smallscope_triple_merges", 0) + sum(1 for x in res.prints if x.startswith('<<"KVMERGE"'))
        if rc != 0 or not res.accepted:
            V.divergence("small-scope triples %s: harness rc=%s consumed=%s" % (job[:4], rc, res.accepted))
        for (ln, sid, items) in res.divs:
            info = [x for x in res.prints if x.startswith('<<"KVINFO",%d,' % ln)]
            V.divergence("small-scope triples batch %s event %d: %s %s" % (job[:4], ln, ",".join(sorted(items)), info[0][:200] if info else ""))
