"""Format-aware, alignment-agnostic tokenizers for files written by kalign.
They split lines into fields; they do not interpret rows (no length checks, no gap logic)."""


def _lines(path):
    with open(path, "rb") as f:
        data = f.read()
    ls = data.split(b"\n")
    if ls and ls[-1] == b"":
        ls = ls[:-1]
    return ls


def tokenize(path, fmt):
    if "msf" in fmt:
        return tok_blocks(path, msf=True)
    if "clu" in fmt:
        return tok_blocks(path, msf=False)
    return tok_fasta(path)


def tok_fasta(path):
    names, rows = [], []
    for line in _lines(path):
        if line.startswith(b">"):
            names.append(list(line[1:]))
            rows.append([])
        elif rows:
            rows[-1].extend(list(line))
    return names, rows


def tok_blocks(path, msf):
    ls = _lines(path)
    start = 1
    if msf:
        for i, l in enumerate(ls):
            if l.strip() == b"//":
                start = i + 1
                break
    order, rows = [], {}
    for l in ls[start:]:
        if not l.strip() or l[:1] in (b" ", b"\t"):
            continue
        parts = l.split()
        name = parts[0]
        seg = b"".join(parts[1:])
        if name not in rows:
            rows[name] = []
            order.append(name)
        rows[name].extend(list(seg))
    return [list(n) for n in order], [rows[n] for n in order]


def layout(path):
    """line-level layout for Writer!WellFormed: every line as a list of byte values"""
    return [list(l) for l in _lines(path)]


# ---- layouts for Writer!WellFormed: fields only, no interpretation -------------------------------
import re as _re


def _ints(b):
    return list(b)


def layout_fasta(path):
    """records: header name and the list of line lengths; rows: concatenation"""
    recs = []
    for line in _lines(path):
        if line.startswith(b">"):
            recs.append(dict(name=_ints(line[1:]), linelens=[], row=[]))
        elif recs:
            recs[-1]["linelens"].append(len(line))
            recs[-1]["row"].extend(_ints(line))
        else:
            recs.append(dict(name=[], linelens=[len(line)], row=_ints(line), orphan=1))
    return dict(e="Layout", fmt="fasta", records=recs)


def _blocks(ls):
    """consecutive non-blank lines form a block; a line is split at its first run of blanks into name / segment"""
    blocks, cur = [], []
    for l in ls:
        if not l.strip():
            if cur:
                blocks.append(cur)
                cur = []
            continue
        m = _re.match(rb"^(\S+)( *)(.*)$", l)
        if m:
            cur.append(dict(name=_ints(m.group(1)), pad=len(m.group(2)), seg=_ints(m.group(3)), namecol=len(m.group(1)) + len(m.group(2))))
        else:
            cur.append(dict(name=[], pad=0, seg=_ints(l), namecol=0, odd=1))
    if cur:
        blocks.append(cur)
    return blocks


def layout_clu(path):
    ls = _lines(path)
    header = ls[0] if ls else b""
    return dict(e="Layout", fmt="clu", header=_ints(header), header_has_msa=1 if b"multiple sequence alignment" in header or b"CLUSTAL" in header else 0,
                second_blank=1 if len(ls) > 1 and not ls[1].strip() else 0, blocks=_blocks(ls[1:]))


def layout_msf(path):
    ls = _lines(path)
    out = dict(e="Layout", fmt="msf", bang="", msf_len=-1, msf_type="", msf_check=-1, names=[], has_sep=0, blocks=[])
    sep = None
    for i, l in enumerate(ls):
        if l.strip() == b"//":
            sep = i
            break
    head = ls[:sep] if sep is not None else ls
    out["has_sep"] = 1 if sep is not None else 0
    for l in head:
        m = _re.match(rb"^!!(\w\w)_MULTIPLE_ALIGNMENT", l)
        if m:
            out["bang"] = m.group(1).decode()
        m = _re.search(rb"MSF:\s*(\d+)\s+Type:\s*(\S)\s.*Check:\s*(\d+)\s+\.\.", l)
        if m:
            out["msf_len"] = int(m.group(1))
            out["msf_type"] = m.group(2).decode()
            out["msf_check"] = int(m.group(3))
        m = _re.match(rb"^\s*Name:\s*(\S+)\s+Len:\s*(\d+)\s+Check:\s*(\d+)\s+Weight:\s*(\S+)", l)
        if m:
            out["names"].append(dict(name=_ints(m.group(1)), len=int(m.group(2)), check=int(m.group(3))))
    out["blocks"] = _blocks(ls[sep + 1:]) if sep is not None else []
    return out


def layout(path, fmt):
    if "msf" in fmt:
        return layout_msf(path)
    if "clu" in fmt:
        return layout_clu(path)
    return layout_fasta(path)
