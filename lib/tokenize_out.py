"""Format-aware, alignment-agnostic tokenizers for files written by kalign.
They split lines into fields; they do not interpret rows (no length checks, no gap logic)."""


def _lines(path):
    with open(path, "rb") as f:
        data = f.read()
    ls = data.split(b"\n")
    if ls and ls[-1] == b"":
        ls = ls[:-1]
    return ls


def tokenize(path, fmt):
    if "msf" in fmt:
        return tok_blocks(path, msf=True)
    if "clu" in fmt:
        return tok_blocks(path, msf=False)
    return tok_fasta(path)


def tok_fasta(path):
    names, rows = [], []
    for line in _lines(path):
        if line.startswith(b">"):
            names.append(list(line[1:]))
            rows.append([])
        elif rows:
            rows[-1].extend(list(line))
    return names, rows


def tok_blocks(path, msf):
    ls = _lines(path)
    start = 1
    if msf:
        for i, l in enumerate(ls):
            if l.strip() == b"//":
                start = i + 1
                break
    order, rows = [], {}
    for l in ls[start:]:
        if not l.strip() or l[:1] in (b" ", b"\t"):
            continue
        parts = l.split()
        name = parts[0]
        seg = b"".join(parts[1:])
        if name not in rows:
            rows[name] = []
            order.append(name)
        rows[name].extend(list(seg))
    return [list(n) for n in order], [rows[n] for n in order]


def layout(path):
    """line-level layout for Writer!WellFormed: every line as a list of byte values"""
    return [list(l) for l in _lines(path)]
