------------------------------ MODULE Aligner ------------------------------
(***************************************************************************)
(* kalign for fewer than 100 sequences, end to end, as one function:        *)
(*   canonical order (length descending, then name: Kalign!Before)          *)
(*   -> pairwise distances (GuideTreeTrace: Myers!SemiGlobal of the shorter *)
(*      in the longer on the guide-tree codes + length term)                *)
(*   -> UPGMA (GuideTree!Run) -> tasks in post order                        *)
(*   -> progressive merges (Profile / GKernel)                              *)
(*   -> rows (Weave!Render with the accumulated gap vectors)                *)
(*   -> rows in input order.                                                *)
(* Sequences are given as code sequences (the same codes serve the tree and *)
(* the aligner here, which is the case for DNA), names as natural numbers   *)
(* (their order stands for the byte order of the names).                    *)
(* Every stage is bound to the code separately (KalignTrace, GuideTreeTrace,*)
(* ProgressiveTrace); this module composes them so that end-to-end          *)
(* properties can be model-checked (MC_Aligner).                            *)
(***************************************************************************)
EXTENDS Profile
GT == INSTANCE GuideTree
MY == INSTANCE Myers
WV == INSTANCE Weave

(* canonical order: indices of the input, longest first, ties by name *)
Canon(seqs, names) ==
    LET n == Len(seqs)
        before(i, j) == Len(seqs[i]) > Len(seqs[j]) \/ (Len(seqs[i]) = Len(seqs[j]) /\ names[i] < names[j])
    IN SortSeq([i \in 1..n |-> i], before)

Dist(s, t) == 10000 * MY!SemiGlobal(s, MY!Prefix(t, 1024)) + (LET h == (Len(s) + Len(t)) \div 2 IN IF h > 10000 THEN 10000 ELSE h)

(* tasks <<a, b, c>> over node ids 0 .. 2n-2 from the joins of the UPGMA machine: a join of two leaf sets becomes the task
   of the nodes that carry those leaf sets; internal nodes are numbered in the order the joins are made *)
Tasks(n, joins) ==
    LET step(acc, k) ==
            LET A == joins[k][1]
                B == joins[k][2]
                idOf(ls) == IF Cardinality(ls) = 1 THEN (CHOOSE x \in ls : TRUE) - 1 ELSE acc.id[ls]
                c == n + k - 1
            IN [tasks |-> Append(acc.tasks, <<idOf(A), idOf(B), c>>), id |-> [ls \in DOMAIN acc.id \cup {A \cup B} |-> IF ls = A \cup B THEN c ELSE acc.id[ls]]]
    IN FoldLeft(step, [tasks |-> <<>>, id |-> <<>>], [k \in 1..Len(joins) |-> k]).tasks

(* the whole run: q scaled parameters; returns the rows in input order *)
AlignAllV(q, seqs, names, variant) ==
    LET n == Len(seqs)
        ord == Canon(seqs, names)
        s(k) == seqs[ord[k]]                                   \* k-th sequence of the canonical order (1-based)
        D0 == [p \in {<<i, j>> \in (1..n) \X (1..n) : i < j} |-> Dist(s(p[1]), s(p[2]))]
        joins == IF n = 1 THEN <<>> ELSE GT!Run(GT!InitU(n, D0, 10)).joins
        tasks == Tasks(n, joins)
        leaf(k) == Leaf(q, s(k + 1)) @@ [leaves |-> {k}]
        step(acc, t) ==
            LET A == acc.node[t[1]]
                B == acc.node[t[2]]
                R == Run(Context(q, A, B))
                p == PathAB(A, B, R.cells)
                va == WV!GapVec(p, "a", A.len)
                vb == IF variant = "ok" THEN WV!GapVec(p, "b", B.len) ELSE WV!GapVec(Mirror(p), "b", B.len)   \* twin: the other side's gaps
            IN [node |-> [x \in DOMAIN acc.node \cup {t[3]} |-> IF x = t[3] THEN Joined(q, A, B, p) @@ [leaves |-> A.leaves \cup B.leaves] ELSE acc.node[x]],
                g |-> [k \in DOMAIN acc.g |-> IF k \in A.leaves THEN WV!UpdateGaps(acc.g[k], va) ELSE IF k \in B.leaves THEN WV!UpdateGaps(acc.g[k], vb) ELSE acc.g[k]],
                paths |-> Append(acc.paths, p)]
        fin == FoldLeft(step, [node |-> [k \in 0..(n - 1) |-> leaf(k)], g |-> [k \in 0..(n - 1) |-> [i \in 1..(Len(s(k + 1)) + 1) |-> 0]], paths |-> <<>>], tasks)
        rowOfInput(i) == LET k == CHOOSE k \in 1..n : ord[k] = i IN WV!Render(seqs[i], fin.g[k - 1])
    IN [rows |-> [i \in 1..n |-> rowOfInput(i)], tasks |-> tasks, paths |-> fin.paths, order |-> ord]
AlignAll(q, seqs, names) == AlignAllV(q, seqs, names, "ok")
=============================================================================
