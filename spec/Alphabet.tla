------------------------------ MODULE Alphabet ------------------------------
(***************************************************************************)
(* Residue alphabets of kalign (alphabet.c), stated as partitions of the    *)
(* letters into classes with their code numbers:                            *)
(*   DNA (5):   A C G T=U and one ambiguity class N = every other letter     *)
(*   PROT23:    ARNDCQEGHILKMFPSTWYVBZX in matrix order, U counted as X     *)
(*   RED13:     the 13 classes of Steinegger & Soeding used for guide tree  *)
(*              distances: (L,M) (I,V) (K,R) (E,Q) (A,S,T) (N,D) (F,Y),     *)
(*              B with N/D, Z with E/Q, X alone                             *)
(*   PROT21:    20 amino acids + one class for B,Z,X,U                      *)
(* Lower case letters have the code of the upper case letter.               *)
(* Properties served: C14 (case / T-U blindness), C05 (totality), C12.      *)
(***************************************************************************)
EXTENDS Ascii, FiniteSets, TLC

\* type numbers of alphabet.h
A_PROT21 == 21  A_PROT23 == 23  A_RED13 == 13  A_RED8 == 8  A_DNA == 5


\* classes in code order; code of a letter = index of its class - 1
DnaClasses == << {Chr.A}, {Chr.C}, {Chr.G}, {Chr.T, Chr.U},
                 {Chr.N, Chr.R, Chr.Y, Chr.S, Chr.W, Chr.K, Chr.M, Chr.B, Chr.D, Chr.H, Chr.V} >>

Prot23Order == << Chr.A, Chr.R, Chr.N, Chr.D, Chr.C, Chr.Q, Chr.E, Chr.G, Chr.H, Chr.I, Chr.L, Chr.K,
                  Chr.M, Chr.F, Chr.P, Chr.S, Chr.T, Chr.W, Chr.Y, Chr.V, Chr.B, Chr.Z, Chr.X >>
Prot23Classes == [i \in 1..23 |-> IF i = 23 THEN {Chr.X, Chr.U} ELSE {Prot23Order[i]}]

\* codes are assigned in alphabetical order of the smallest letter of the class (ACDEFGHIKLMNPQRSTVWY, then B Z X)
Red13Classes == << {Chr.A, Chr.S, Chr.T}, {Chr.C}, {Chr.D, Chr.N, Chr.B}, {Chr.E, Chr.Q, Chr.Z}, {Chr.F, Chr.Y},
                   {Chr.G}, {Chr.H}, {Chr.I, Chr.V}, {Chr.K, Chr.R}, {Chr.L, Chr.M}, {Chr.P}, {Chr.W}, {Chr.X} >>

Prot21Order == << Chr.A, Chr.C, Chr.D, Chr.E, Chr.F, Chr.G, Chr.H, Chr.I, Chr.K, Chr.L, Chr.M, Chr.N,
                  Chr.P, Chr.Q, Chr.R, Chr.S, Chr.T, Chr.V, Chr.W, Chr.Y >>
Prot21Classes == [i \in 1..21 |-> IF i = 21 THEN {Chr.B, Chr.Z, Chr.X, Chr.U} ELSE {Prot21Order[i]}]

\* the 8-class alphabet (not used by the pipeline): AM / C F I V / D E K N Q R P / G H T S / W L Y / B Z X
Red8Classes == << {Chr.A, Chr.M}, {Chr.C, Chr.F, Chr.I, Chr.V}, {Chr.D, Chr.E, Chr.K, Chr.N, Chr.Q, Chr.R, Chr.P},
                  {Chr.G, Chr.H, Chr.T, Chr.S}, {Chr.L, Chr.W, Chr.Y}, {Chr.B, Chr.Z, Chr.X} >>

Classes(alpha) ==
    CASE alpha = A_DNA -> DnaClasses
      [] alpha = A_PROT23 -> Prot23Classes
      [] alpha = A_RED13 -> Red13Classes
      [] alpha = A_PROT21 -> Prot21Classes
      [] alpha = A_RED8 -> Red8Classes

Size(alpha) == Len(Classes(alpha))

\* the class that also takes every letter without a class of its own (N for nucleotides, X for proteins)
AmbiguityLetter(alpha) == IF alpha = A_DNA THEN Chr.N ELSE Chr.X

\* code of character c (0..127) in the alphabet; -1 for non-letters.  Letters that belong to no
\* listed class (X in DNA; J, O, ... in proteins) are counted with the ambiguity class.
Code(alpha, c) ==
    LET u == Upper(c)
        cl == Classes(alpha)
        idx(x) == (CHOOSE i \in 1..Len(cl) : x \in cl[i]) - 1
    IN IF ~IsAlpha(c) THEN -1
       ELSE IF \E i \in 1..Len(cl) : u \in cl[i] THEN idx(u)
       ELSE idx(AmbiguityLetter(alpha))

Table(alpha) == [i \in 1..128 |-> Code(alpha, i - 1)]

-----------------------------------------------------------------------------
(* requirements on a table t (a sequence of 128 codes, index = character + 1) *)
CaseBlindT(t) == \A c \in 65..90 : t[c + 1] = t[c + 33]
TUBlindT(t) == t[Chr.T + 1] = t[Chr.U + 1] /\ t[Chr.T + 1] # -1
OnlyLettersT(t) == \A c \in 0..127 : ~IsAlpha(c) => t[c + 1] = -1
RangeT(t, L) == \A c \in 0..127 : t[c + 1] \in -1..(L - 1)
TotalT(t) == \A c \in 0..127 : IsAlpha(c) => t[c + 1] # -1
Unmapped(t) == {c \in 65..90 : t[c + 1] = -1}

(* lemmas about the specification's own tables *)
WellFormed(alpha) ==
    LET cl == Classes(alpha)
    IN /\ \A i, j \in 1..Len(cl) : i # j => cl[i] \cap cl[j] = {}
       /\ CaseBlindT(Table(alpha))
       /\ OnlyLettersT(Table(alpha))
       /\ RangeT(Table(alpha), Size(alpha))

Lemmas ==
    /\ \A a \in {A_DNA, A_PROT23, A_RED13, A_PROT21, A_RED8} : WellFormed(a)
    /\ TUBlindT(Table(A_DNA))
    /\ Size(A_DNA) = 5 /\ Size(A_PROT23) = 23 /\ Size(A_RED13) = 13
    /\ \A a \in {A_DNA, A_PROT23, A_RED13, A_PROT21, A_RED8} : TotalT(Table(a))
    \* the 23-letter alphabet refines the 13-class one: equal full codes imply equal reduced codes
    /\ \A x, y \in 65..90 : Code(A_PROT23, x) = Code(A_PROT23, y) => Code(A_RED13, x) = Code(A_RED13, y)
=============================================================================
