SPECIFICATION Spec
INVARIANT AlphabetLemmas
POSTCONDITION Accepted
CHECK_DEADLOCK FALSE
