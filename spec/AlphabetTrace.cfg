SPECIFICATION Spec
INVARIANT NoViolation
INVARIANT AlphabetLemmas
POSTCONDITION Accepted
CHECK_DEADLOCK FALSE
