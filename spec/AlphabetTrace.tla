--------------------------- MODULE AlphabetTrace ---------------------------
(* binds Alphabet to the tables produced by the real create_alphabet (events "Alphabet") *)
EXTENDS Alphabet, Json, IOUtils

Trace == ndJsonDeserialize(IOEnv.TRACE)
VARIABLES l, viol, div
vars == <<l, viol, div>>
Ev == Trace[l]
Init == l = 1 /\ viol = {} /\ div = {}

Report(v, d) ==
    /\ viol' = v /\ div' = d
    /\ IF v # {} THEN PrintT(<<"KVFAIL", l, "alphabet", v>>) ELSE TRUE
    /\ IF d # {} THEN PrintT(<<"KVDIV", l, "alphabet", d>>) ELSE TRUE

Pipeline == {A_DNA, A_PROT23, A_RED13}

TAlphabet ==
    /\ l <= Len(Trace) /\ Ev.e = "Alphabet"
    /\ l' = l + 1
    /\ LET t == Ev.map
           a == Ev.type
       IN Report(
            \* C14: the real table is blind to case, and to T/U for nucleotides
            (IF ~CaseBlindT(t) THEN {"C14:case"} ELSE {})
            \cup (IF a = A_DNA /\ ~TUBlindT(t) THEN {"C14:TU"} ELSE {})
            \* C05: every letter the readers accept has a class, for the alphabets the pipeline uses
            \cup (IF a \in Pipeline /\ ~TotalT(t) THEN {"C05:letters-without-class"} ELSE {})
            \cup (IF ~RangeT(t, Ev.L) \/ ~OnlyLettersT(t) THEN {"C05:code-out-of-range"} ELSE {}),
            \* the code agrees with the specification's partition on the letters the specification gives a class to
            (IF Ev.L # Size(a) THEN {"Alphabet.L"} ELSE {})
            \cup (IF \E c \in 0..127 : t[c + 1] # Code(a, c) THEN {"Alphabet.table"} ELSE {}))

TOther ==
    /\ l <= Len(Trace) /\ Ev.e # "Alphabet"
    /\ l' = l + 1
    /\ Report({}, {})

Next == TAlphabet \/ TOther
Spec == Init /\ [][Next]_vars
NoViolation == viol = {}
Accepted == TLCGet("stats").diameter - 1 = Len(Trace)
AlphabetLemmas == Lemmas
=============================================================================
