------------------------------- MODULE Anchor -------------------------------
(***************************************************************************)
(* The front end of the guide tree for any number of sequences              *)
(* (pick_anchor.c pick_anchor / select_seqs, sequence_distance.c            *)
(* d_estimation with pair = 0, bisectingKmeans.c split2), on exact          *)
(* integers.                                                                *)
(*                                                                          *)
(* 1. Anchors.  With n sequences in canonical order (length descending)     *)
(*    kalign takes K = min(Cap, n) anchors (Cap = 32 in the code) at stride *)
(*    n div K from the list sorted by length (descending).  The comparator  *)
(*    of that sort never answers "equal", so which of several sequences of  *)
(*    one length is taken is left to the C library's qsort: the             *)
(*    specification fixes the LENGTH of every anchor and that anchors are   *)
(*    distinct sequences, not their identity among equal lengths            *)
(*    (WellFormed); when all lengths differ the anchors are determined      *)
(*    (Exact).                                                              *)
(* 2. Anchor distances.  Entry (i, j) of the n x K matrix is the            *)
(*    semi-global edit distance with the longer of (sequence i, anchor j)   *)
(*    as text - on equal lengths the anchor is the text - plus the length   *)
(*    term min(10000, (len_i + len_j) div 2) / 10000; here in units 1e-4.   *)
(* 3. 2-means (split2).  Lloyd's iteration from the seed (centroid l = the  *)
(*    seed sample, centroid r = its mirror image in the mean), in rational  *)
(*    arithmetic on integer vectors: a cluster is kept as (sum vector,      *)
(*    size), and "x is nearer to l than to r" is decided without division.  *)
(*    Ties go left for even positions in the sample list and right for odd  *)
(*    ones (the code's `i & 1`); an empty cluster ends the run with the     *)
(*    halves of the sample list.  The machine Lloyd is explored by          *)
(*    MC_Anchor (termination within the code's 500 rounds, partition,       *)
(*    order kept, fixed point) over all small inputs; on real runs only     *)
(*    the POSTCONDITION FixedPoint is evaluated (GuideTreeTrace), because   *)
(*    float32 decides near-ties differently from exact arithmetic and the   *)
(*    code does not log the rounds.                                         *)
(* Properties served: C03 (anchors and clusters are functions of the        *)
(* canonical order), C02 (the result of a try is a function of its          *)
(* arguments), C05 (termination), C11/C12 (the distance kernel in situ).    *)
(***************************************************************************)
EXTENDS Integers, Sequences, SequencesExt, FiniteSets, FiniteSetsExt, TLC
M == INSTANCE Myers
(* "parity" is the code; "left" (every tie goes left) is the twin of MC_Anchor: identical samples then leave one cluster empty *)
TieRule == "parity"

Min_(a, b) == IF a < b THEN a ELSE b

(* ---- 1. anchors ---- *)
NumAnchors(cap, n) == Min_(cap, n)
Stride(cap, n) == n \div NumAnchors(cap, n)
(* lens: lengths in canonical order (index 1 = canonical index 0) *)
SortedDesc(lens) == SortSeq(lens, LAMBDA a, b : a > b)
AnchorLens(cap, lens) ==
    LET n == Len(lens) sd == SortedDesc(lens) st == Stride(cap, n)
    IN [i \in 1..NumAnchors(cap, n) |-> sd[(i - 1) * st + 1]]
(* anchors: 0-based canonical indices as the code returns them *)
WellFormed(cap, lens, anchors) ==
    LET n == Len(lens) al == AnchorLens(cap, lens)
    IN /\ Len(anchors) = NumAnchors(cap, n)
       /\ \A i \in 1..Len(anchors) : anchors[i] \in 0..(n - 1)
       /\ \A i, j \in 1..Len(anchors) : i # j => anchors[i] # anchors[j]
       /\ \A i \in 1..Len(anchors) : lens[anchors[i] + 1] = al[i]
Exact(cap, lens) == [i \in 1..NumAnchors(cap, Len(lens)) |-> (i - 1) * Stride(cap, Len(lens))]
AllDistinct(lens) == \A i, j \in 1..Len(lens) : i # j => lens[i] # lens[j]
IsDesc(lens) == \A i \in 1..(Len(lens) - 1) : lens[i] >= lens[i + 1]

(* every way a sort whose comparator never says "equal" may order the ties: any permutation of the indices that sorts the lengths *)
SortOutcomes(lens) ==
    LET n == Len(lens)
    IN {p \in [1..n -> 1..n] : /\ \A i, j \in 1..n : i # j => p[i] # p[j]
                               /\ \A i \in 1..(n - 1) : lens[p[i]] >= lens[p[i + 1]]}
AnchorsOf(cap, lens, p) == [i \in 1..NumAnchors(cap, Len(lens)) |-> p[(i - 1) * Stride(cap, Len(lens)) + 1] - 1]

(* ---- 2. anchor distances (units of 1e-4) ---- *)
LenTerm(la, lb) == Min_(10000, (la + lb) \div 2)
(* a: the sequence of row i, b: the anchor of column j (both as code sequences) *)
AnchorDist(a, b) ==
    (IF Len(a) > Len(b) THEN M!SemiGlobal(a, M!Prefix(b, 1024)) ELSE M!SemiGlobal(b, M!Prefix(a, 1024))) * 10000 + LenTerm(Len(a), Len(b))

(* ---- 3. 2-means on integer vectors ---- *)
(* a cluster centre is a pair (sum vector S, weight w): the point S / w *)
VAdd(u, v) == [j \in 1..Len(u) |-> u[j] + v[j]]
VZero(k) == [j \in 1..k |-> 0]
SumOf(X, idx) == FoldLeft(LAMBDA acc, i : VAdd(acc, X[i]), VZero(Len(X[idx[1]])), idx)
(* squared distance of x to S / w, times w^2 *)
SqW(x, S, w) == FoldLeft(LAMBDA acc, j : acc + (x[j] * w - S[j]) * (x[j] * w - S[j]), 0, [j \in 1..Len(x) |-> j])
(* -1: x nearer to (SL, wl); 1: nearer to (SR, wr); 0: equidistant.  d(x, L)^2 = SqW(x, SL, wl) / wl^2 *)
Nearer(x, SL, wl, SR, wr) ==
    LET a == SqW(x, SL, wl) * wr * wr
        b == SqW(x, SR, wr) * wl * wl
    IN IF a < b THEN -1 ELSE IF a > b THEN 1 ELSE 0

(* one assignment round: X data (sequence of vectors), idx the sample list (indices into X), centres (SL, wl), (SR, wr) *)
Assign(X, idx, SL, wl, SR, wr) ==
    LET step(acc, i) ==
            LET c == Nearer(X[idx[i]], SL, wl, SR, wr)
                left == c = -1 \/ (c = 0 /\ (TieRule = "left" \/ (i - 1) % 2 = 0))       \* the code's position i is 0-based
            IN IF left THEN [acc EXCEPT !.l = Append(@, idx[i])] ELSE [acc EXCEPT !.r = Append(@, idx[i])]
    IN FoldLeft(step, [l |-> <<>>, r |-> <<>>], [i \in 1..Len(idx) |-> i])
Halves(idx) == [l |-> SubSeq(idx, 1, Len(idx) \div 2), r |-> SubSeq(idx, Len(idx) \div 2 + 1, Len(idx)), degenerate |-> TRUE, rounds |-> 0]
(* same point?  S1 / w1 = S2 / w2 *)
SamePoint(S1, w1, S2, w2) == \A j \in 1..Len(S1) : S1[j] * w2 = S2[j] * w1

(* initial centres: l = the seed sample; r = 2 * mean - seed = (2 * Sum - n * seed) / n *)
RECURSIVE Iterate(_, _, _, _, _, _, _)
Iterate(X, idx, SL, wl, SR, wr, round) ==
    LET a == Assign(X, idx, SL, wl, SR, wr)
    IN IF a.l = <<>> \/ a.r = <<>> THEN [Halves(idx) EXCEPT !.rounds = round]
       ELSE LET NL == SumOf(X, a.l) NR == SumOf(X, a.r)
            IN IF (SamePoint(NL, Len(a.l), SL, wl) /\ SamePoint(NR, Len(a.r), SR, wr)) \/ round >= 500
               THEN [l |-> a.l, r |-> a.r, degenerate |-> FALSE, rounds |-> round]
               ELSE Iterate(X, idx, NL, Len(a.l), NR, Len(a.r), round + 1)
Lloyd(X, idx, seed) ==
    LET n == Len(idx)
        tot == SumOf(X, idx)
        sd == X[idx[seed + 1]]
    IN Iterate(X, idx, sd, 1, [j \in 1..Len(sd) |-> 2 * tot[j] - n * sd[j]], n, 1)

(* postconditions of a try *)
IsSubSeqOf(s, t) == \E f \in [1..Len(s) -> 1..Len(t)] : (\A i \in 1..(Len(s) - 1) : f[i] < f[i + 1]) /\ \A i \in 1..Len(s) : t[f[i]] = s[i]
Partition(idx, l, r) == /\ Len(l) + Len(r) = Len(idx) /\ Len(l) >= 1 /\ Len(r) >= 1
                        /\ ToSet(l) \cup ToSet(r) = ToSet(idx) /\ ToSet(l) \cap ToSet(r) = {}
(* every member is at least as near to the mean of its own cluster as to the mean of the other one *)
FixedPoint(X, l, r) ==
    LET SL == SumOf(X, l) SR == SumOf(X, r)
    IN /\ \A i \in 1..Len(l) : Nearer(X[l[i]], SL, Len(l), SR, Len(r)) <= 0
       /\ \A i \in 1..Len(r) : Nearer(X[r[i]], SL, Len(l), SR, Len(r)) >= 0

(* the same postcondition on coarse fixed-point numbers, for recorded runs (32-bit integers in TLC, float32 in the code):
   centres in units of the data, rounded down; slack = the bound on the error of the squared distances *)
CentreOf(X, idx) == LET S == SumOf(X, idx) IN [j \in 1..Len(S) |-> S[j] \div Len(idx)]
Sq(x, c) == FoldLeft(LAMBDA acc, j : acc + (x[j] - c[j]) * (x[j] - c[j]), 0, [j \in 1..Len(x) |-> j])
AbsDev(x, c) == FoldLeft(LAMBDA acc, j : acc + (IF x[j] > c[j] THEN x[j] - c[j] ELSE c[j] - x[j]), 0, [j \in 1..Len(x) |-> j])
(* the squared distance to the rounded centre differs from the true one by at most 2 |x - c| e + e^2 per coordinate, e < 2 (flooring the centre, rounding the datum) *)
Slack(x, c) == 4 * AbsDev(x, c) + 4 * Len(x)
Misplaced(X, l, r) ==
    LET cl == CentreOf(X, l) cr == CentreOf(X, r)
        off(i, own, other) == Sq(X[i], own) - Slack(X[i], own) > Sq(X[i], other) + Slack(X[i], other)
    IN {l[i] : i \in {k \in 1..Len(l) : off(l[k], cl, cr)}} \cup {r[i] : i \in {k \in 1..Len(r) : off(r[k], cr, cl)}}
=============================================================================
