-------------------------------- MODULE Api --------------------------------
(***************************************************************************)
(* Life cycle of msa objects through the public API (kalign.h):             *)
(*   Read(h, i)     kalign_read_input: creates h or appends input i to it   *)
(*   Run(h, p)      kalign_run with parameter set p on a read object        *)
(*   Write(h, f)    kalign_write_msa of a finished object                   *)
(*   Compare(g, h)  kalign_msa_compare of two finished objects              *)
(*   Kalign(i, p)   the array entry point (no object survives the call)     *)
(*   Free(h)        kalign_free_msa                                         *)
(* The result of a call is a function of the content of its argument        *)
(* objects and of its own arguments only (property C16): content[h] is the  *)
(* chain of calls that built h, and Result(call) is an uninterpreted        *)
(* function of the chains.  TLC enumerates every well-formed history up to  *)
(* MaxCalls calls; each is replayed against the real library, and every     *)
(* call's real result is compared with the result of replaying only its     *)
(* chain in a fresh process.                                                *)
(***************************************************************************)
EXTENDS Naturals, Sequences, FiniteSets, TLC, Json

CONSTANTS Handles, Inputs, ParSets, Formats, MaxCalls

VARIABLES st,      \* st[h] \in {"absent", "read", "final"}
          content, \* content[h]: the calls that built the object in h since it was created
          hist,    \* all calls so far
          chains   \* chains[k]: what call k's result may depend on (sequence of chains of its argument objects, then the call)

vars == <<st, content, hist, chains>>

Init == /\ st = [h \in Handles |-> "absent"]
        /\ content = [h \in Handles |-> <<>>]
        /\ hist = <<>>
        /\ chains = <<>>

Do(call, deps) == /\ hist' = Append(hist, call)
                  /\ chains' = Append(chains, deps \o <<call>>)

Read(h, i) ==
    /\ st[h] \in {"absent", "read"}
    /\ LET c == [op |-> "read", h |-> h, i |-> i]
       IN /\ Do(c, content[h])
          /\ content' = [content EXCEPT ![h] = Append(@, c)]
    /\ st' = [st EXCEPT ![h] = "read"]

Run(h, p) ==
    /\ st[h] = "read"
    /\ LET c == [op |-> "run", h |-> h, p |-> p]
       IN /\ Do(c, content[h])
          /\ content' = [content EXCEPT ![h] = Append(@, c)]
    /\ st' = [st EXCEPT ![h] = "final"]

Write(h, f) ==
    /\ st[h] = "final"
    /\ Do([op |-> "write", h |-> h, f |-> f], content[h])
    /\ UNCHANGED <<st, content>>

Compare(g, h) ==
    /\ g # h /\ st[g] = "final" /\ st[h] = "final"
    \* same sequences in both: the objects were built from the same inputs
    /\ [k \in 1..Len(SelectSeq(content[g], LAMBDA c : c.op = "read")) |-> SelectSeq(content[g], LAMBDA c : c.op = "read")[k].i]
       = [k \in 1..Len(SelectSeq(content[h], LAMBDA c : c.op = "read")) |-> SelectSeq(content[h], LAMBDA c : c.op = "read")[k].i]
    /\ LET c == [op |-> "compare", g |-> g, h |-> h]
       IN /\ Do(c, content[g] \o content[h])
          \* comparing sorts (and finalises) both objects: from now on their content includes the comparison
          /\ content' = [content EXCEPT ![g] = Append(content[g] \o content[h], c), ![h] = Append(content[g] \o content[h], c)]
    /\ UNCHANGED st

Kalign(i, p) ==
    /\ Do([op |-> "kalign", i |-> i, p |-> p], <<>>)
    /\ UNCHANGED <<st, content>>

Free(h) ==
    /\ st[h] # "absent"
    /\ Do([op |-> "free", h |-> h], <<>>)
    /\ st' = [st EXCEPT ![h] = "absent"]
    /\ content' = [content EXCEPT ![h] = <<>>]

Next ==
    /\ Len(hist) < MaxCalls
    /\ \/ \E h \in Handles, i \in Inputs : Read(h, i)
       \/ \E h \in Handles, p \in ParSets : Run(h, p)
       \/ \E h \in Handles, f \in Formats : Write(h, f)
       \/ \E g, h \in Handles : Compare(g, h)
       \/ \E i \in Inputs, p \in ParSets : Kalign(i, p)
       \/ \E h \in Handles : Free(h)

Spec == Init /\ [][Next]_vars

(* one input kind per object: kalign refuses to mix protein and nucleotide inputs *)
TypeOK == \A h \in Handles : st[h] \in {"absent", "read", "final"} /\ (st[h] = "absent" <=> content[h] = <<>>)

(* design-level statement of C16 in the model: the dependency chain of a call never mentions a call on an unrelated handle *)
ChainsAreLocal ==
    \A k \in 1..Len(hist) :
        LET c == hist[k]
            own == IF c.op = "compare" THEN {c.g, c.h} ELSE IF c.op \in {"kalign"} THEN {} ELSE {c.h}
        IN \A j \in 1..Len(chains[k]) :
              LET d == chains[k][j]
              IN d.op = "kalign" \/ (IF d.op = "compare" THEN {d.g, d.h} \cap own # {} ELSE d.h \in own) \/ c.op = "compare"

(* emit every complete history once (PrintT inside an invariant evaluated on each distinct state) *)
Emit == Len(hist) = MaxCalls => PrintT(ToJson([hist |-> hist, chains |-> chains]))
=============================================================================
