------------------------------ MODULE ApiTrace ------------------------------
(* C16: for every call of every history, the result observed in the history (Res) equals the result of replaying only the
   call's dependency chain (Api!chains) in a fresh process (Fresh).  Both carry the projected result as a record. *)
EXTENDS Naturals, Sequences, TLC, Json, IOUtils
Trace == ndJsonDeserialize(IOEnv.TRACE)
VARIABLES l, last, viol
vars == <<l, last, viol>>
Ev == Trace[l]
Init == l = 1 /\ last = [k |-> "none"] /\ viol = {}
TRes == /\ l <= Len(Trace) /\ Ev.e = "Res" /\ l' = l + 1 /\ last' = [k |-> "res", id |-> Ev.id, v |-> Ev.v] /\ viol' = {}
TFresh ==
    /\ l <= Len(Trace) /\ Ev.e = "Fresh"
    /\ l' = l + 1
    /\ UNCHANGED last
    /\ viol' = IF last.k = "res" /\ last.id = Ev.id /\ last.v # Ev.v THEN {"C16:result-depends-on-earlier-calls"} ELSE {}
    /\ IF viol' # {} THEN PrintT(<<"KVFAIL", l, Ev.id, viol'>>) ELSE TRUE
TLeak ==
    /\ l <= Len(Trace) /\ Ev.e = "Leak"
    /\ l' = l + 1 /\ UNCHANGED last
    /\ viol' = IF Ev.bytes > 0 THEN {"C16:memory-still-allocated-after-all-objects-were-freed"} ELSE {}
    /\ IF viol' # {} THEN PrintT(<<"KVFAIL", l, Ev.id, viol'>>) ELSE TRUE
TOther == l <= Len(Trace) /\ Ev.e \notin {"Res", "Fresh", "Leak"} /\ l' = l + 1 /\ UNCHANGED last /\ viol' = {}
Next == TRes \/ TFresh \/ TLeak \/ TOther
Spec == Init /\ [][Next]_vars
Accepted == TLCGet("stats").diameter - 1 = Len(Trace)
=============================================================================
