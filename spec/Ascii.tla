------------------------------- MODULE Ascii -------------------------------
(* character classes of the C locale over 0..127, as the readers use them (ctype.h) *)
EXTENDS Integers, Sequences

IsUpper(c) == c \in 65..90
IsLower(c) == c \in 97..122
IsAlpha(c) == IsUpper(c) \/ IsLower(c)
IsDigit(c) == c \in 48..57
IsSpace(c) == c \in {32, 9, 10, 11, 12, 13}
IsCntrl(c) == c \in 0..31 \/ c = 127
IsPunct(c) == c \in 33..126 /\ ~IsAlpha(c) /\ ~IsDigit(c)
Upper(c) == IF IsLower(c) THEN c - 32 ELSE c
Lower(c) == IF IsUpper(c) THEN c + 32 ELSE c

(* the codes of a string literal's characters: only for the letters we need *)
Chr == [A |-> 65, B |-> 66, C |-> 67, D |-> 68, E |-> 69, F |-> 70, G |-> 71, H |-> 72, I |-> 73, J |-> 74,
        K |-> 75, L |-> 76, M |-> 77, N |-> 78, O |-> 79, P |-> 80, Q |-> 81, R |-> 82, S |-> 83, T |-> 84,
        U |-> 85, V |-> 86, W |-> 87, X |-> 88, Y |-> 89, Z |-> 90]

(* strncmp(a, b, 256) on sequences of codes: negative / zero / positive (only the first 256 bytes are looked at) *)
CmpSeq(a0, b0) ==
    LET a == IF Len(a0) > 256 THEN SubSeq(a0, 1, 256) ELSE a0
        b == IF Len(b0) > 256 THEN SubSeq(b0, 1, 256) ELSE b0
        n == IF Len(a) < Len(b) THEN Len(a) ELSE Len(b)
        diff == SelectSeq([i \in 1..n |-> i], LAMBDA i : a[i] # b[i])
    IN IF diff # <<>> THEN (IF a[diff[1]] < b[diff[1]] THEN -1 ELSE 1)
       ELSE IF Len(a) < Len(b) THEN -1 ELSE IF Len(a) > Len(b) THEN 1 ELSE 0
=============================================================================
