------------------------------ MODULE Biotype ------------------------------
(***************************************************************************)
(* Recognition of nucleotide vs protein input (msa_op.c detect_alphabet).   *)
(* Requirement (property C13), on the residue letters of the input only:    *)
(*   C13a  all residues in {A,C,G,T,U,N} (either case)        => nucleotide *)
(*   C13b  at least a quarter of the residues are letters that occur only   *)
(*         in proteins (amino-acid letters that are not IUPAC nucleotide    *)
(*         codes: E F I L P Q)                                 => protein   *)
(* and the decision does not depend on order or names.                      *)
(* CodeRule is a model of what the code computes: a log-likelihood ratio    *)
(* over the character histogram, in units of 1e-3 nat, with a guard band.   *)
(***************************************************************************)
EXTENDS Ascii, FiniteSets, SequencesExt, TLC

PROTEIN == 0  DNA == 1  UNDECIDED == 2

Nuc6 == {Chr.A, Chr.C, Chr.G, Chr.T, Chr.U, Chr.N}
IupacNuc == Nuc6 \cup {Chr.R, Chr.Y, Chr.S, Chr.W, Chr.K, Chr.M, Chr.B, Chr.D, Chr.H, Chr.V}
Amino20 == {Chr.A, Chr.C, Chr.D, Chr.E, Chr.F, Chr.G, Chr.H, Chr.I, Chr.K, Chr.L, Chr.M, Chr.N, Chr.P, Chr.Q, Chr.R, Chr.S, Chr.T, Chr.V, Chr.W, Chr.Y}
ProteinOnly == Amino20 \ IupacNuc        \* E F I L P Q

Letters(seqs) == FoldLeft(LAMBDA acc, s : acc \o SelectSeq(s, IsAlpha), <<>>, seqs)
CountIn(xs, S) == FoldLeft(LAMBDA acc, c : IF Upper(c) \in S THEN acc + 1 ELSE acc, 0, xs)

Requirement(seqs) ==
    LET r == Letters(seqs)
        n == Len(r)
    IN IF n = 0 THEN UNDECIDED
       ELSE IF CountIn(r, Nuc6) = n THEN DNA
       ELSE IF 4 * CountIn(r, ProteinOnly) >= n THEN PROTEIN
       ELSE UNDECIDED

(* the code's two letter models: 12 nucleotide characters (acgtun, both cases), 40 protein characters *)
CodeDna == Nuc6
CodeProt == Amino20
(* per character, log P(c | dna) - log P(c | protein), in 1e-3 nat:
   in both lists: ln(0.9999/12) - ln(0.9999/40) =  1.204 ; dna list only (U): ln(0.9999/12) - ln(0.0001/88) = 11.203
   protein list only: ln(0.0001/116) - ln(0.9999/40) = -10.275 ; neither: ln(0.0001/116) - ln(0.0001/88) = -0.276 *)
Weight(c) ==
    LET u == Upper(c)
    IN IF u \in CodeDna /\ u \in CodeProt THEN 1204
       ELSE IF u \in CodeDna THEN 11203
       ELSE IF u \in CodeProt THEN -10275
       ELSE -276

(* chars: every character the code counts (letters only since the fix of the gap-character defect) *)
CodeRule(chars) ==
    LET total == FoldLeft(LAMBDA acc, c : acc + Weight(c), 0, chars)
        n == Len(chars)
    IN IF total > n THEN DNA ELSE IF total < -n THEN PROTEIN ELSE UNDECIDED
=============================================================================
