SPECIFICATION Spec
INVARIANT NoViolation
POSTCONDITION Accepted
CHECK_DEADLOCK FALSE
