---------------------------- MODULE BiotypeTrace ----------------------------
(* C13: Case events carry the intended residues (generator input) and a group id; the Obj / RunBegin event that follows
   carries kalign's decision.  Requirement from Biotype; decisions within one group (reorderings, renamings) must agree. *)
EXTENDS Biotype, Json, IOUtils
Trace == ndJsonDeserialize(IOEnv.TRACE)
VARIABLES l, cs, first, viol
vars == <<l, cs, first, viol>>
Ev == Trace[l]
Is(e) == l <= Len(Trace) /\ Trace[l].e = e
Init == l = 1 /\ cs = [k |-> "none"] /\ first = <<>> /\ viol = {}
Report(v, extra) == viol' = v /\ IF v # {} THEN PrintT(<<"KVFAIL", l, cs.id, v>>) /\ PrintT(<<"KVINFO", l, cs.id, extra>>) ELSE TRUE

TCase ==
    /\ Is("Case")
    /\ l' = l + 1
    /\ cs' = [k |-> "case", id |-> Ev.id, grp |-> Ev.grp, seqs |-> Ev.seqs]
    /\ UNCHANGED first /\ viol' = {}

Decide(bt) ==
    LET want == Requirement(cs.seqs)
        model == CodeRule(Letters(cs.seqs))
        v == (IF want = DNA /\ bt # DNA THEN {"C13:nucleotide-input-not-treated-as-nucleotide"} ELSE {})
             \cup (IF want = PROTEIN /\ bt # PROTEIN THEN {"C13:protein-input-not-treated-as-protein"} ELSE {})
             \cup (IF cs.grp \in DOMAIN first /\ first[cs.grp] # bt THEN {"C13:decision-depends-on-order-or-names"} ELSE {})
    IN /\ Report(v, <<"model", model, "hasU", CountIn(Letters(cs.seqs), {Chr.U}) > 0>>)
       /\ first' = IF cs.grp \in DOMAIN first THEN first ELSE [g \in (DOMAIN first) \cup {cs.grp} |-> IF g = cs.grp THEN bt ELSE first[g]]

TObj ==
    /\ Is("Obj") /\ Ev.tag = "bt" /\ cs.k = "case"
    /\ l' = l + 1
    /\ IF Ev.null = 1 THEN Report({"C13:input-not-read"}, <<>>) /\ UNCHANGED first ELSE Decide(Ev.biotype)
    /\ cs' = [cs EXCEPT !.k = "used"]

TRunBegin ==
    /\ Is("RunBegin") /\ cs.k = "case"
    /\ l' = l + 1
    /\ Decide(Ev.biotype)
    /\ cs' = [cs EXCEPT !.k = "used"]

TOther ==
    /\ l <= Len(Trace)
    /\ ~(Ev.e = "Case" \/ (cs.k = "case" /\ ((Ev.e = "Obj" /\ Ev.tag = "bt") \/ Ev.e = "RunBegin")))
    /\ l' = l + 1 /\ UNCHANGED <<cs, first>> /\ viol' = {}
Next == TCase \/ TObj \/ TRunBegin \/ TOther
Spec == Init /\ [][Next]_vars
NoViolation == viol = {}
Accepted == TLCGet("stats").diameter - 1 = Len(Trace)
=============================================================================
