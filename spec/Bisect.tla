------------------------------- MODULE Bisect -------------------------------
(***************************************************************************)
(* The bisecting k-means recursion that builds the guide tree of 100 or     *)
(* more sequences (bisectingKmeans.c bisecting_kmeans / split2), as far as  *)
(* termination and the shape of the result are concerned.                   *)
(* A node holding n >= T samples is split into two non-empty parts: split2  *)
(* runs 2-means from a seed and, whenever a cluster runs empty, falls back  *)
(* to cutting the samples in half, so every try returns (nl, nr) with       *)
(* nl + nr = n, nl >= 1, nr >= 1; the node keeps the first try (in index    *)
(* order, after the taskwait) with the smallest score.  Nodes below T are   *)
(* finished by UPGMA.  T is 100 in the code.                                *)
(* Properties: every run ends (C05), the leaves partition the input (C01),  *)
(* the kept try does not depend on the order in which the tries finish      *)
(* (C02).  Variant "onesided" (a fallback that only looks at one cluster,   *)
(* so that (0, n) can be returned) is the twin: it does not terminate.      *)
(***************************************************************************)
EXTENDS Integers, Sequences, FiniteSets, TLC
CONSTANTS N, T, Variant
VARIABLES pending, leaves, steps
vars == <<pending, leaves, steps>>

(* what a try can return for a node of n samples *)
Outcomes(n) == IF Variant = "ok" THEN {<<l, n - l>> : l \in 1..(n - 1)} ELSE {<<l, n - l>> : l \in 0..(n - 1)}

Init == pending = <<N>> /\ leaves = <<>> /\ steps = 0
(* one node is taken (any order: the two children are independent tasks) *)
Finish(k) == /\ pending[k] < T
             /\ leaves' = IF pending[k] = 0 THEN leaves ELSE Append(leaves, pending[k])
             /\ pending' = [i \in 1..(Len(pending) - 1) |-> IF i < k THEN pending[i] ELSE pending[i + 1]]
             /\ steps' = steps
SplitNode(k) == /\ pending[k] >= T
                /\ \E o \in Outcomes(pending[k]) :
                      pending' = [i \in 1..(Len(pending) + 1) |-> IF i < k THEN pending[i] ELSE IF i = k THEN o[1] ELSE IF i = k + 1 THEN o[2] ELSE pending[i - 1]]
                /\ steps' = IF Variant = "ok" THEN steps + 1 ELSE steps   \* the twin has no bound: keep its state space finite
                /\ UNCHANGED leaves
Next == \E k \in 1..Len(pending) : Finish(k) \/ SplitNode(k)
Spec == Init /\ [][Next]_vars /\ WF_vars(Next)

Sum(s) == IF s = <<>> THEN 0 ELSE LET RECURSIVE F(_) F(i) == IF i = 0 THEN 0 ELSE s[i] + F(i - 1) IN F(Len(s))
Conservation == Sum(pending) + Sum(leaves) = N
NoEmptyNode == \A i \in 1..Len(pending) : pending[i] >= 1
(* at most N - 1 splits: every split of a node with both parts non-empty adds a node, and there are at most N of them *)
Bounded == Variant = "ok" => steps <= N - 1
Terminates == <>(pending = <<>>)

(* the reduction over the tries of one node: scores s[1..k] in index order, kept = first minimal (strict >) *)
Kept(s) == CHOOSE i \in 1..Len(s) : (\A j \in 1..Len(s) : s[i] <= s[j]) /\ (\A j \in 1..(i - 1) : s[j] > s[i])
(* the code's loop: best = s[1]; for j: if best > s[j] then best = s[j] *)
Loop(s) == LET RECURSIVE G(_, _) G(j, b) == IF j > Len(s) THEN b ELSE G(j + 1, IF s[b] > s[j] THEN j ELSE b) IN G(2, 1)
ASSUME ReductionIsFirstMinimum == \A s \in UNION {[1..k -> 0..2] : k \in 1..4} : Loop(s) = Kept(s)
Small == Len(pending) <= N + 2
=============================================================================
