---------------------------- MODULE BisectTrace ----------------------------
(* the recorded bisecting k-means recursion follows Bisect: a node with fewer than 100 samples is a leaf; every other node
   gets two non-empty children whose sizes add up to its own (KmKids), the children appear as nodes of exactly those sizes,
   every node is finished (KmDone) and at RunEnd none is left open.  Events carry the node's id (digest of its samples),
   so tasks of different nodes may interleave freely.  Diagnostic (KVDIV): a divergence here is what a future hang or a
   lost sequence in the guide tree would look like. *)
EXTENDS Integers, Sequences, FiniteSets, TLC, Json, IOUtils
Trace == ndJsonDeserialize(IOEnv.TRACE)
VARIABLES l, open, expect, viol
vars == <<l, open, expect, viol>>
Ev == Trace[l]
Is(e) == l <= Len(Trace) /\ Trace[l].e = e
T == 100
Init == l = 1 /\ open = <<>> /\ expect = <<>> /\ viol = {}
Report(v) == viol' = v /\ IF v # {} THEN PrintT(<<"KVDIV", l, "bisect", v>>) ELSE TRUE
Put(f, k, v) == [x \in (DOMAIN f) \cup {k} |-> IF x = k THEN v ELSE f[x]]
Drop(f, k) == [x \in (DOMAIN f) \ {k} |-> f[x]]

TNode == /\ Is("KmNode") /\ l' = l + 1
         /\ open' = Put(open, Ev.id, Ev.n)
         /\ expect' = IF Ev.id \in DOMAIN expect THEN Drop(expect, Ev.id) ELSE expect
         /\ Report((IF (Ev.leaf = 1) # (Ev.n < T) THEN {"Bisect.leaf-flag"} ELSE {})
                   \cup (IF Ev.n < 1 THEN {"Bisect.empty-node"} ELSE {})
                   \cup (IF Ev.id \in DOMAIN expect /\ expect[Ev.id] # Ev.n THEN {"Bisect.child-size-differs-from-the-split"} ELSE {}))
TKids == /\ Is("KmKids") /\ l' = l + 1 /\ UNCHANGED open
         /\ expect' = Put(Put(expect, Ev.l, Ev.nl), Ev.r, Ev.nr)
         /\ PrintT(<<"KVSPLIT", l, Ev.nl, Ev.nr>>)
         /\ Report((IF Ev.id \notin DOMAIN open THEN {"Bisect.split-of-an-unknown-node"} ELSE {})
                   \cup (IF Ev.id \in DOMAIN open /\ Ev.nl + Ev.nr # open[Ev.id] THEN {"Bisect.parts-do-not-add-up"} ELSE {})
                   \cup (IF Ev.nl < 1 \/ Ev.nr < 1 THEN {"Bisect.empty-part"} ELSE {})
                   \cup (IF Ev.id \in DOMAIN open /\ open[Ev.id] < T THEN {"Bisect.leaf-was-split"} ELSE {}))
TDone == /\ Is("KmDone") /\ l' = l + 1 /\ UNCHANGED expect
         /\ open' = IF Ev.id \in DOMAIN open THEN Drop(open, Ev.id) ELSE open
         /\ Report(IF Ev.id \notin DOMAIN open THEN {"Bisect.done-without-node"} ELSE {})
TEnd == /\ Is("RunEnd") /\ l' = l + 1 /\ open' = <<>> /\ expect' = <<>>
        /\ Report((IF DOMAIN open # {} THEN {"Bisect.node-never-finished"} ELSE {}) \cup (IF DOMAIN expect # {} THEN {"Bisect.child-never-visited"} ELSE {}))
TOther == l <= Len(Trace) /\ Ev.e \notin {"KmNode", "KmKids", "KmDone", "RunEnd"} /\ l' = l + 1 /\ UNCHANGED <<open, expect>> /\ viol' = {}
Next == TNode \/ TKids \/ TDone \/ TEnd \/ TOther
Spec == Init /\ [][Next]_vars
Accepted == TLCGet("stats").diameter - 1 = Len(Trace)
=============================================================================
