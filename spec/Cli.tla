-------------------------------- MODULE Cli --------------------------------
(***************************************************************************)
(* The command line program as a decision procedure (src/run_kalign.c):     *)
(* an option vector and an input class determine whether the run must fail  *)
(* or must succeed; in every case it terminates, and                        *)
(*    exit 0      =>  the output is a valid alignment of the input          *)
(*    exit # 0    =>  an error message was printed                          *)
(* TLC enumerates the option lattice (Emit); every vector is executed with  *)
(* the real binary under the sanitizers and checked by CliTrace.            *)
(***************************************************************************)
EXTENDS Naturals, Sequences, FiniteSets, TLC, Json

Types == {"none", "dna", "rna", "internal", "protein", "divergent", "bogus"}
Formats == {"none", "fasta", "fa", "msf", "clu", "bogus"}
Threads == {"none", "1", "4", "0", "-1", "abc"}
Gpos == {"none", "5.5", "0", "-1", "abc"}
InputsC == {"gooddna", "goodprot", "missing", "empty", "onerecord", "garbage"}
Outputs == {"stdout", "file", "unwritable"}

TypeMismatch(t, i) == (i = "gooddna" /\ t \in {"protein", "divergent"}) \/ (i = "goodprot" /\ t \in {"dna", "rna", "internal"})

MustFail(v) ==
    \/ v.type = "bogus" \/ v.format = "bogus"
    \/ v.threads \in {"0", "-1", "abc"}
    \/ v.input \in {"missing", "empty", "onerecord", "garbage"}
    \/ v.output = "unwritable"
    \/ TypeMismatch(v.type, v.input)

Vectors == [type : Types, format : Formats, threads : Threads, gpo : Gpos, input : InputsC, output : Outputs]

(* the protocol, evaluated on an observed run r = [exit, msg, valid] of vector v *)
Protocol(vec, r) ==
    (IF r.exit = 0 /\ r.valid # 1 THEN {"C05:exit-0-without-valid-alignment"} ELSE {})
    \cup (IF r.exit # 0 /\ r.msg # 1 THEN {"C05:failure-without-error-message"} ELSE {})
    \cup (IF MustFail(vec) /\ r.exit = 0 THEN {"C05:failure-not-reported-as-failure"} ELSE {})
    \cup (IF ~MustFail(vec) /\ r.exit # 0 THEN {"C05:valid-invocation-fails"} ELSE {})
=============================================================================
