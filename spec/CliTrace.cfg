SPECIFICATION Spec2
POSTCONDITION Accepted
CHECK_DEADLOCK FALSE
