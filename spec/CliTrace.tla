------------------------------ MODULE CliTrace ------------------------------
(* C05 for the command line: each CliRun event carries the option vector, the exit status, whether an error message was printed,
   and the output rows/names together with the input records; validity of the output is C01 on that pair, evaluated here. *)
EXTENDS Cli, Weave, IOUtils
Trace == ndJsonDeserialize(IOEnv.TRACE)
VARIABLES l, viol
vars == <<l, viol>>
Ev == Trace[l]
Valid(ev) ==
    IF ev.hasout = 0 THEN 0
    ELSE LET idx == SelectSeq([i \in 1..Len(ev.inseqs) |-> i], LAMBDA i : Len(ev.inseqs[i]) > 0)
             n == Len(idx)
         IN IF /\ Len(ev.outrows) = n /\ n >= 2 /\ EqualLen(ev.outrows)
               /\ \A k \in 1..n : StripDash(ev.outrows[k]) = ev.inseqs[idx[k]] /\ ev.outnames[k] = ev.innames[idx[k]]
               /\ AllGapCols(ev.outrows) = {}
            THEN 1 ELSE 0
TRun ==
    /\ l <= Len(Trace) /\ Ev.e = "CliRun"
    /\ l' = l + 1
    /\ viol' = Protocol(Ev.vec, [exit |-> Ev.exit, msg |-> Ev.msg, valid |-> Valid(Ev)])
    /\ IF viol' # {} THEN PrintT(<<"KVFAIL", l, Ev.id, viol'>>) ELSE TRUE
TOther == l <= Len(Trace) /\ Ev.e # "CliRun" /\ l' = l + 1 /\ viol' = {}
Init2 == l = 1 /\ viol = {}
Next2 == TRun \/ TOther
Spec2 == Init2 /\ [][Next2]_vars
Accepted == TLCGet("stats").diameter - 1 = Len(Trace)
=============================================================================
