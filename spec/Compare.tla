------------------------------ MODULE Compare ------------------------------
(***************************************************************************)
(* The alignment comparison score (msa_cmp.c kalign_msa_compare).           *)
(* An alignment is [names, rows].  For a residue k of sequence s and        *)
(* another sequence t, Partner is the index of t's residue in the column    *)
(* of that residue, or 0 if t has a gap there.  The score of a test         *)
(* alignment T against a reference R over the same named sequences is       *)
(*     100 * |{(s,k,t) : s # t, Partner_R(s,k,t) = Partner_T(s,k,t)}|       *)
(*         / |{(s,k,t) : s # t}|                                            *)
(* Sequences are matched by name.  Property served: C17.                    *)
(***************************************************************************)
EXTENDS Weave

(* columns of the residues of a row: cols[k] = column of residue k *)
ResidueCols(row) == SelectSeq([c \in 1..Len(row) |-> c], LAMBDA c : row[c] # Dash)

IndexOfName(A, nm) == CHOOSE i \in 1..Len(A.names) : A.names[i] = nm

(* partners[s][t][k] for alignment A *)
Partners(A) ==
    LET n == Len(A.rows)
        idx == [i \in 1..n |-> ResidueIndex(A.rows[i])]
        cols == [i \in 1..n |-> ResidueCols(A.rows[i])]
    IN [s \in 1..n |-> [t \in 1..n |-> [k \in 1..Len(cols[s]) |-> idx[t][cols[s][k]]]]]

Total(R) ==
    LET n == Len(R.rows)
        lens == [i \in 1..n |-> Len(StripDash(R.rows[i]))]
    IN (n - 1) * Sum(lens)

Same(R, T) ==
    LET n == Len(R.rows)
        PR == Partners(R)
        PT == Partners(T)
        map == [i \in 1..n |-> IndexOfName(T, R.names[i])]
        cnt(s, t) == LET a == PR[s][t]
                         b == PT[map[s]][map[t]]
                     IN Cardinality({k \in 1..Len(a) : k <= Len(b) /\ a[k] = b[k]})
    IN Sum([s \in 1..n |-> Sum([t \in 1..n |-> IF s = t THEN 0 ELSE cnt(s, t)])])

(* the score in units of 1e-4, rounded down; intermediate values stay below 2^31 for Total <= 200000 *)
Score1e4(R, T) ==
    LET s == Same(R, T)
        tot == Total(R)
        q == (s * 10000) \div tot
        r == (s * 10000) % tot
    IN q * 100 + (r * 100) \div tot

Comparable(R, T) ==
    /\ Len(R.rows) = Len(T.rows)
    /\ Cardinality({R.names[i] : i \in 1..Len(R.names)}) = Len(R.names)
    /\ {R.names[i] : i \in 1..Len(R.names)} = {T.names[i] : i \in 1..Len(T.names)}
    /\ \A i \in 1..Len(R.rows) : StripDash(R.rows[i]) = StripDash(T.rows[IndexOfName(T, R.names[i])])
    /\ Total(R) > 0 /\ Total(R) <= 200000

(* same alignment up to row order and all-gap columns *)
Equivalent(R, T) ==
    /\ Comparable(R, T)
    /\ LET p == Project(R.rows)
           q == Project([i \in 1..Len(R.rows) |-> T.rows[IndexOfName(T, R.names[i])]])
       IN p = q
=============================================================================
