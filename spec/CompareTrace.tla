---------------------------- MODULE CompareTrace ----------------------------
(* C17: kalign_msa_compare's score against Compare!Score1e4 on the two alignments handed to it (Obj "ref", Obj "test") *)
EXTENDS Compare, Json, IOUtils
Trace == ndJsonDeserialize(IOEnv.TRACE)
VARIABLES l, sid, ref, tst, viol
vars == <<l, sid, ref, tst, viol>>
Ev == Trace[l]
Is(e) == l <= Len(Trace) /\ Trace[l].e = e
None == [k |-> "none"]
Init == l = 1 /\ sid = "none" /\ ref = None /\ tst = None /\ viol = {}
Report(v) == viol' = v /\ IF v # {} THEN PrintT(<<"KVFAIL", l, sid, v>>) ELSE TRUE
TNote == Is("Note") /\ l' = l + 1 /\ sid' = Ev.text /\ UNCHANGED <<ref, tst>> /\ Report({})

AlnOf(ev) ==
    IF ev.null = 1 THEN None
    ELSE [k |-> "ok", names |-> ev.names,
          rows |-> IF ev.rows = 1 THEN ev.seqs ELSE [i \in 1..Len(ev.seqs) |-> Render(ev.seqs[i], ev.gaps[i])]]

TRef == Is("Obj") /\ Ev.tag = "ref" /\ l' = l + 1 /\ ref' = AlnOf(Ev) /\ UNCHANGED <<sid, tst>> /\ Report({})
TTest == Is("Obj") /\ Ev.tag = "test" /\ l' = l + 1 /\ tst' = AlnOf(Ev) /\ UNCHANGED <<sid, ref>> /\ Report({})

Tol == 10   \* 1e-3 score units

TCompare ==
    /\ Is("Ret") /\ Ev.op = "compare"
    /\ l' = l + 1
    /\ UNCHANGED <<sid, ref, tst>>
    /\ IF ref.k # "ok" \/ tst.k # "ok" \/ ~EqualLen(ref.rows) \/ ~EqualLen(tst.rows) \/ ~Comparable(ref, tst)
       THEN PrintT(<<"KVSKIP", l, sid, "premise">>) /\ Report({})
       ELSE LET want == Score1e4(ref, tst)
                got == Ev.score
            IN Report((IF Ev.rc # 0 \/ Ev.finite # 1 THEN {"C17:no-score"} ELSE
                         (IF got < want - Tol \/ got > want + Tol + 1 THEN {"C17:score-differs-from-fraction"} ELSE {})
                         \cup (IF got < 0 \/ got > 1000000 THEN {"C17:outside-0-100"} ELSE {})
                         \cup (IF Equivalent(ref, tst) /\ got # 1000000 THEN {"C17:equal-alignments-not-100"} ELSE {})))

TOther ==
    /\ l <= Len(Trace)
    /\ ~(Ev.e = "Note" \/ (Ev.e = "Obj" /\ Ev.tag \in {"ref", "test"}) \/ (Ev.e = "Ret" /\ Ev.op = "compare"))
    /\ l' = l + 1 /\ UNCHANGED <<sid, ref, tst>> /\ Report({})
Next == TNote \/ TRef \/ TTest \/ TCompare \/ TOther
Spec == Init /\ [][Next]_vars
NoViolation == viol = {}
Accepted == TLCGet("stats").diameter - 1 = Len(Trace)
=============================================================================
