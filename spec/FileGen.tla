------------------------------ MODULE FileGen ------------------------------
(***************************************************************************)
(* Generator of input files for the readers (msa_io.c): a file is a short   *)
(* sequence of lines, each of one of the kinds below (well-formed pieces of *)
(* the three formats and the malformed pieces the property C05 names:       *)
(* punctuation before the first name, bytes >= 0x80, control characters,    *)
(* letters outside the alphabets, records without residues, data rows       *)
(* beyond the declared names, one-character first lines, huge names).       *)
(* TLC enumerates every file of up to MaxLines lines; each is printed once  *)
(* and replayed against the real library under the sanitizers.              *)
(***************************************************************************)
EXTENDS Naturals, Sequences, TLC, Json

CONSTANTS MaxLines, Kinds

Rep(n, c) == [i \in 1..n |-> c]

Line(k) ==
    CASE k = "name1"   -> <<62, 115, 49>>                                   \* >s1
      [] k = "name2"   -> <<62, 115, 50, 32, 100, 101, 115, 99>>            \* >s2 desc
      [] k = "noname"  -> <<62>>                                            \* >
      [] k = "res"     -> <<65, 67, 71, 84, 65, 67>>                        \* ACGTAC
      [] k = "res2"    -> <<65, 67, 71, 84, 84, 65, 67, 65>>                \* ACGTTACA
      [] k = "gapped"  -> <<65, 67, 45, 71, 84, 46>>                        \* AC-GT.
      [] k = "prot"    -> <<76, 75, 69, 70, 87, 81>>                        \* LKEFWQ
      [] k = "blank"   -> <<>>
      [] k = "spaces"  -> <<32, 32, 32>>
      [] k = "punct"   -> <<45, 45, 46, 46>>                                \* --..
      [] k = "high"    -> <<65, 67, 195, 169, 71, 84>>                      \* AC e-acute GT (bytes >= 0x80)
      [] k = "ctrl"    -> <<65, 67, 1, 71, 84>>                             \* control character mid-line
      [] k = "odd"     -> <<88, 74, 79, 85, 90, 66>>                        \* XJOUZB
      [] k = "digits"  -> <<49, 50, 51, 52, 53>>
      [] k = "one"     -> <<65>>                                            \* a one-character line
      [] k = "cluhdr"  -> <<67, 76, 85, 83, 84, 65, 76, 32, 87, 32, 109, 117, 108, 116, 105, 112, 108, 101, 32, 115, 101, 113, 117, 101, 110, 99, 101, 32, 97, 108, 105, 103, 110, 109, 101, 110, 116>>
      [] k = "msfhdr"  -> <<33, 33, 78, 65, 95, 77, 85, 76, 84, 73, 80, 76, 69, 95, 65, 76, 73, 71, 78, 77, 69, 78, 84, 32, 49, 46, 48>>
      [] k = "msfline" -> <<32, 120, 32, 77, 83, 70, 58, 32, 54, 32, 84, 121, 112, 101, 58, 32, 78, 32, 67, 104, 101, 99, 107, 58, 32, 48, 32, 46, 46>>
      [] k = "msfname" -> <<32, 78, 97, 109, 101, 58, 32, 115, 49, 32, 32, 76, 101, 110, 58, 32, 54, 32, 32, 67, 104, 101, 99, 107, 58, 32, 48, 32, 87, 101, 105, 103, 104, 116, 58, 32, 49, 46, 48, 48>>
      [] k = "msfname2"-> <<32, 78, 97, 109, 101, 58, 32, 115, 50, 32, 32, 76, 101, 110, 58, 32, 54, 32, 32, 67, 104, 101, 99, 107, 58, 32, 48, 32, 87, 101, 105, 103, 104, 116, 58, 32, 49, 46, 48, 48>>
      [] k = "nolen"   -> <<32, 78, 97, 109, 101, 58, 32, 115, 51>>         \* Name: without Len:
      [] k = "sep"     -> <<47, 47>>                                        \* //
      [] k = "row1"    -> <<115, 49, 32, 32, 32, 65, 67, 71, 84, 65, 67>>   \* s1   ACGTAC
      [] k = "row2"    -> <<115, 50, 32, 32, 32, 65, 67, 45, 84, 65, 67>>   \* s2   AC-TAC
      [] k = "row3"    -> <<115, 51, 32, 32, 32, 65, 71, 45, 84, 65, 67>>   \* s3   AG-TAC  (a row beyond the declared names)
      [] k = "rowonly" -> <<115, 52>>                                       \* s4 (row name without residues)
      [] k = "longname"-> <<62>> \o Rep(1000, 110)                          \* > and 1000 x n

VARIABLES file
Init == file = <<>>
Next == Len(file) < MaxLines /\ \E k \in Kinds : file' = Append(file, k)
Spec == Init /\ [][Next]_file
Emit == Len(file) >= 1 => PrintT(ToJson([kinds |-> file, lines |-> [i \in 1..Len(file) |-> Line(file[i])]]))
=============================================================================
