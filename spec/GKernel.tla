------------------------------ MODULE GKernel ------------------------------
(***************************************************************************)
(* The three dynamic-programming kernels of kalign as one machine:          *)
(*   kind 0  sequence  x sequence   (aln_seqseq.c)                          *)
(*   kind 1  profile   x sequence   (aln_seqprofile.c; the profile is rows) *)
(*   kind 2  profile   x profile    (aln_profileprofile.c)                  *)
(* They share the recurrences of Kernel.tla and differ only in where the    *)
(* substitution score and the gap penalties come from.  A context cx gives: *)
(*   cx.n, cx.m         number of rows / columns                            *)
(*   S(cx, i, j)        score of aligning row i with column j               *)
(*   GA(cx, j)          [o, e, t]: open/close, extension and terminal cost  *)
(*                      of a gap in the ROW side that consumes column j     *)
(*                      (profile x profile: column j's own penalties,       *)
(*                      prof2[27..29]; otherwise constants)                 *)
(*   GB(cx, i)          the same for a gap in the COLUMN side consuming     *)
(*                      row i (prof1[27..29] of that row)                   *)
(* Costs are positive here (the code stores them negated) and scaled by K   *)
(* as in Kernel.  Index conventions of the code, kept exactly:              *)
(*   forward : a run is opened with the cost of its first position, closed  *)
(*             with the cost of its LAST position (prof[-37]);              *)
(*   backward: opened (at its right end) with the cost of its last position *)
(*             and closed with the cost of its FIRST position (prof[91]);   *)
(*   both charge an extension for every position but the one that opened.   *)
(* With constant penalties this is Kernel.tla (checked by MC_GKernel).      *)
(***************************************************************************)
EXTENDS Integers, Sequences, SequencesExt, FiniteSets, TLC, Hirschberg

K == 200
NEG == -2000000000
Mx(x, y) == IF x > y THEN x ELSE y
Mx3(x, y, z) == Mx(x, Mx(y, z))
Pl(x, d) == IF x <= NEG \div 2 THEN NEG ELSE x + d
Add(x, y) == IF x <= NEG \div 2 \/ y <= NEG \div 2 THEN NEG ELSE x + y
Abs(x) == IF x < 0 THEN -x ELSE x
St(x, y, z) == [a |-> x, ga |-> y, gb |-> z]
NegSt == St(NEG, NEG, NEG)

(* profiles: a sequence of columns 0 .. len+1 (column k is element k+1); a column is
   [cnt: 23 residue counts, sc: 23 summed substitution scores (minus gap charges), g: <<gpo, gpe, tgpe>> summed] *)
PC(P, k) == P[k + 1]

S(cx, i, j) ==
    IF cx.kind = 0 THEN cx.q.subm[cx.a[i] * 23 + cx.b[j] + 1]
    ELSE IF cx.kind = 1 THEN PC(cx.p1, i).sc[cx.b[j] + 1]
    ELSE LET c1 == PC(cx.p1, i).cnt
             s2 == PC(cx.p2, j).sc
         IN FoldLeft(LAMBDA acc, c : IF c1[c] # 0 THEN acc + c1[c] * s2[c] ELSE acc, 0, [c \in 1..23 |-> c])
GA(cx, j) == IF cx.kind = 2 THEN LET g == PC(cx.p2, j).g IN [o |-> g[1] * cx.nrow, e |-> g[2] * cx.nrow, t |-> g[3] * cx.nrow]
             ELSE cx.gac
GB(cx, i) == IF cx.kind = 0 THEN cx.gac
             ELSE LET g == PC(cx.p1, i).g IN [o |-> g[1] * cx.ncol, e |-> g[2] * cx.ncol, t |-> g[3] * cx.ncol]

(* contexts.  q = parameters scaled by K; nrow / ncol = number of sequences on the row / column side *)
CxSeqSeq(q, a, b) == [kind |-> 0, n |-> Len(a), m |-> Len(b), q |-> q, a |-> a, b |-> b, gac |-> [o |-> q.gpo, e |-> q.gpe, t |-> q.tgpe]]
CxProfSeq(q, p1, nrow, b) == [kind |-> 1, n |-> Len(p1) - 2, m |-> Len(b), q |-> q, p1 |-> p1, b |-> b, nrow |-> nrow, ncol |-> 1,
                              gac |-> [o |-> q.gpo * nrow, e |-> q.gpe * nrow, t |-> q.tgpe * nrow]]
CxProfProf(q, p1, nrow, p2, ncol) == [kind |-> 2, n |-> Len(p1) - 2, m |-> Len(p2) - 2, q |-> q, p1 |-> p1, p2 |-> p2, nrow |-> nrow, ncol |-> ncol]

-----------------------------------------------------------------------------
Forward(cx, sa, mid, sb, eb, f0) ==
    LET lenb == cx.m
        w == eb - sb + 1
        gaInit(prev, j) == IF sb > 0 THEN Mx(Pl(prev.ga, -GA(cx, j).e), Pl(prev.a, -GA(cx, j).o)) ELSE Pl(Mx(prev.ga, prev.a), -GA(cx, j).t)
        row0 == Append(FoldLeft(LAMBDA acc, p : Append(acc, St(NEG, gaInit(acc[Len(acc)], sb + p - 1), NEG)), <<f0>>, [p \in 1..(w - 2) |-> p + 1]), NegSt)
        step(s, i) ==
            LET gbi == GB(cx, i)
                gbc == GB(cx, i - 1).o
                first == St(NEG, NEG, IF sb > 0 THEN Mx(Pl(s[1].gb, -gbi.e), Pl(s[1].a, -gbi.o)) ELSE Pl(Mx(s[1].gb, s[1].a), -gbi.t))
                inner(acc, p) ==
                    LET j == sb + p - 1
                        old == s[p]
                        gaj == GA(cx, j)
                        na == Pl(Mx3(acc.pa, Pl(acc.pga, -GA(cx, j - 1).o), Pl(acc.pgb, -gbc)), S(cx, i, j))
                        nga == Mx(Pl(acc.xga, -gaj.e), Pl(acc.xa, -gaj.o))
                        ngb == Mx(Pl(old.gb, -gbi.e), Pl(old.a, -gbi.o))
                    IN [out |-> Append(acc.out, St(na, nga, ngb)), pa |-> old.a, pga |-> old.ga, pgb |-> old.gb, xa |-> na, xga |-> nga]
                r == FoldLeft(inner, [out |-> <<first>>, pa |-> s[1].a, pga |-> s[1].ga, pgb |-> s[1].gb, xa |-> NEG, xga |-> NEG],
                              [p \in 1..(w - 2) |-> p + 1])
                oldl == s[w]
                la == Pl(Mx3(r.pa, Pl(r.pga, -GA(cx, eb - 1).o), Pl(r.pgb, -gbc)), S(cx, i, eb))
                lgb == IF eb # lenb THEN Mx(Pl(oldl.gb, -gbi.e), Pl(oldl.a, -gbi.o)) ELSE Pl(Mx(oldl.gb, oldl.a), -gbi.t)
            IN Append(r.out, St(la, NEG, lgb))
    IN FoldLeft(step, row0, [k \in 1..(mid - sa) |-> sa + k])

Backward(cx, mid, ea, sb, eb, b0) ==
    LET lenb == cx.m
        w == eb - sb + 1
        Rv(s) == [k \in 1..Len(s) |-> s[Len(s) - k + 1]]
        \* rs[k] stands for position j = eb - k + 1 (j columns consumed before; the next column is j + 1)
        gaInit(nxt, j) == IF eb # lenb THEN Mx(Pl(nxt.ga, -GA(cx, j + 1).e), Pl(nxt.a, -GA(cx, j + 1).o)) ELSE Pl(Mx(nxt.ga, nxt.a), -GA(cx, j + 1).t)
        row0r == Append(FoldLeft(LAMBDA acc, k : Append(acc, St(NEG, gaInit(acc[Len(acc)], eb - k + 1), NEG)), <<b0>>, [k \in 1..(w - 2) |-> k + 1]), NegSt)
        step(rs, i) ==
            LET gbi == GB(cx, i)
                gbc == GB(cx, i + 1).o
                first == St(NEG, NEG, IF eb # lenb THEN Mx(Pl(rs[1].gb, -gbi.e), Pl(rs[1].a, -gbi.o)) ELSE Pl(Mx(rs[1].gb, rs[1].a), -gbi.t))
                inner(acc, k) ==
                    LET j == eb - k + 1
                        old == rs[k]
                        gaj == GA(cx, j + 1)
                        na == Pl(Mx3(acc.pa, Pl(acc.pga, -GA(cx, j + 2).o), Pl(acc.pgb, -gbc)), S(cx, i, j + 1))
                        nga == Mx(Pl(acc.xga, -gaj.e), Pl(acc.xa, -gaj.o))
                        ngb == Mx(Pl(old.gb, -gbi.e), Pl(old.a, -gbi.o))
                    IN [out |-> Append(acc.out, St(na, nga, ngb)), pa |-> old.a, pga |-> old.ga, pgb |-> old.gb, xa |-> na, xga |-> nga]
                r == FoldLeft(inner, [out |-> <<first>>, pa |-> rs[1].a, pga |-> rs[1].ga, pgb |-> rs[1].gb, xa |-> NEG, xga |-> NEG],
                              [k \in 1..(w - 2) |-> k + 1])
                oldl == rs[w]
                la == Pl(Mx3(r.pa, Pl(r.pga, -GA(cx, sb + 2).o), Pl(r.pgb, -gbc)), S(cx, i, sb + 1))
                lgb == IF sb > 0 THEN Mx(Pl(oldl.gb, -gbi.e), Pl(oldl.a, -gbi.o)) ELSE Pl(Mx(oldl.gb, oldl.a), -gbi.t)
            IN Append(r.out, St(la, NEG, lgb))
    IN Rv(FoldLeft(step, row0r, [k \in 1..(ea - mid) |-> ea - k + 1]))

Meetup(cx, f, bk, mid, sb, eb) ==
    LET lenb == cx.m
        w == eb - sb + 1
        tb(i) == Abs(sb + eb - 2 * i)
        upd(best, v, tr, i) == IF v > best.max THEN [max |-> v, c |-> i, tr |-> tr, second |-> best.max]
                               ELSE IF v > best.second THEN [best EXCEPT !.second = v] ELSE best
        gbn == GB(cx, mid + 1)
        gbm == GB(cx, mid)
        col(best, p) ==
            LET i == sb + p - 1
                F == f[p]
                B == bk[p]
                t == tb(i)
                b1 == upd(best, Pl(Add(F.a, B.a), -t), 1, i)
                b2 == upd(b1, Pl(Add(F.a, B.ga), -GA(cx, i + 1).o - t), 2, i)
                b3 == upd(b2, Pl(Add(F.a, B.gb), -gbn.o - t), 3, i)
                b5 == upd(b3, Pl(Add(F.ga, B.a), -GA(cx, i).o - t), 5, i)
                b6 == upd(b5, Pl(Add(F.gb, B.gb), -(IF i = 0 THEN gbn.t ELSE gbn.e) - t), 6, i)
            IN upd(b6, Pl(Add(F.gb, B.a), -gbm.o - t), 7, i)
        inner == FoldLeft(col, [max |-> NEG, c |-> -1, tr |-> -1, second |-> NEG], [p \in 1..(w - 1) |-> p])
        F == f[w]
        B == bk[w]
        t == tb(eb)
        e3 == upd(inner, Pl(Add(F.a, B.gb), -gbn.o - t), 3, eb)
    IN upd(e3, Pl(Add(F.gb, B.gb), -(IF eb = lenb THEN gbn.t ELSE gbn.e) - t), 6, eb)

LeftB0(tr) == IF tr \in {1, 2, 3} THEN St(0, NEG, NEG) ELSE IF tr = 5 THEN St(NEG, 0, NEG) ELSE St(NEG, NEG, 0)
RightF0(tr) == IF tr \in {1, 5, 7} THEN St(0, NEG, NEG) ELSE IF tr = 2 THEN St(NEG, 0, NEG) ELSE St(NEG, NEG, 0)

Split(cx, r, f0, b0) ==
    LET mid == Mid(r)
        f == Forward(cx, r[1], mid, r[3], r[4], f0)
        bk == Backward(cx, mid, r[2], r[3], r[4], b0)
    IN Meetup(cx, f, bk, mid, r[3], r[4])

RECURSIVE Rec(_, _, _, _)
Rec(cx, r, f0, b0) ==
    IF Degenerate(r) THEN [cells |-> {}, splits |-> <<>>]
    ELSE LET mt == Split(cx, r, f0, b0)
             this == [sa |-> r[1], ea |-> r[2], sb |-> r[3], eb |-> r[4], mid |-> Mid(r), meet |-> mt.c, tr |-> mt.tr, score |-> mt.max]
         IN IF mt.tr \notin Trans THEN [cells |-> {}, splits |-> <<this>>]
            ELSE LET ch == Children(r, mt.c, mt.tr)
                     L == Rec(cx, ch[1], f0, LeftB0(mt.tr))
                     R == Rec(cx, ch[2], RightF0(mt.tr), b0)
                 IN [cells |-> Cells(r, mt.c, mt.tr) \cup L.cells \cup R.cells, splits |-> <<this>> \o L.splits \o R.splits]

Run(cx) == Rec(cx, <<0, cx.n, 0, cx.m>>, St(0, NEG, NEG), St(0, NEG, NEG))

(* path[] -> codes relative to (rows, columns): 0 both, 1 column only, 2 row only *)
Codes(n, m, cells) ==
    LET colOf(i) == IF \E c \in cells : c[1] = i THEN (CHOOSE c \in cells : c[1] = i)[2] ELSE -1
        step(acc, i) ==
            LET c == colOf(i)
            IN IF c = -1 THEN [acc EXCEPT !.p = Append(@, 2)]
               ELSE [p |-> acc.p \o [k \in 1..(c - acc.last - 1) |-> 1] \o <<0>>, last |-> c]
        r == FoldLeft(step, [p |-> <<>>, last |-> 0], [i \in 1..n |-> i])
    IN r.p \o [k \in 1..(m - r.last) |-> 1]
(* the same alignment seen from the other side (mirror_path_n): rows and columns exchanged *)
Mirror(p) == [k \in 1..Len(p) |-> IF p[k] = 1 THEN 2 ELSE IF p[k] = 2 THEN 1 ELSE 0]
WellFormedCells(n, m, cells) ==
    /\ \A c \in cells : c[1] \in 1..n /\ c[2] \in 1..m
    /\ \A c, d \in cells : (c[1] = d[1] => c = d) /\ (c[1] < d[1] => c[2] < d[2])
=============================================================================
