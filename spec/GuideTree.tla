----------------------------- MODULE GuideTree -----------------------------
(***************************************************************************)
(* The guide tree for fewer than 100 sequences (bisectingKmeans.c upgma,    *)
(* label_internal, create_tasks; sequence_distance.c d_estimation):         *)
(*  - distance of two sequences = semi-global edit distance on the tree     *)
(*    alphabet + (mean length, capped at 10000) / 10000;                    *)
(*  - UPGMA: repeatedly join the first pair (scanning i < j in canonical    *)
(*    order) with the strictly smallest distance; the joined row becomes    *)
(*    (row_a + row_b) / 2 + 0.001 and takes a's place;                      *)
(*  - the result is used as a list of tasks <<a, b, c>> with internal       *)
(*    nodes numbered in post order.                                         *)
(* Distances are integers; to keep them integral every join doubles the     *)
(* scale: new = row_a + row_b + 2 * Eps, all other entries * 2, Eps * 2.    *)
(* Properties served: C12 (copies form a clade), C03, diagnostics.          *)
(***************************************************************************)
EXTENDS Integers, Sequences, FiniteSets, TLC

(* state of the machine: alive (set of row indices), D (function on pairs), eps, clades (leaf set per row), joins (sequence of joined leaf-set pairs) *)
InitU(n, D0, eps0) ==
    [alive |-> 1..n, D |-> D0, eps |-> eps0, clade |-> [i \in 1..n |-> {i}], joins |-> <<>>]

(* the first strictly smallest pair in scan order i < j *)
MinPair(st) ==
    LET pairs == {<<i, j>> \in st.alive \X st.alive : i < j}
        best == CHOOSE p \in pairs : \A q \in pairs : st.D[p] < st.D[q] \/ (st.D[p] = st.D[q] /\ (p[1] < q[1] \/ (p[1] = q[1] /\ p[2] <= q[2])))
    IN best

(* how clear the choice is: difference between the smallest and the next different value *)
Gap(st) ==
    LET pairs == {<<i, j>> \in st.alive \X st.alive : i < j}
        m == st.D[MinPair(st)]
        others == {st.D[q] : q \in pairs} \ {m}
    IN IF others = {} THEN 1000000000 ELSE (CHOOSE x \in others : \A y \in others : x <= y) - m

Key(i, j) == IF i < j THEN <<i, j>> ELSE <<j, i>>

Join(st) ==
    LET p == MinPair(st)
        a == p[1]
        b == p[2]
        rest == st.alive \ {a, b}
        D2 == [q \in DOMAIN st.D |->
                 IF q[1] \in rest /\ q[2] \in rest THEN 2 * st.D[q]
                 ELSE IF (q[1] = a /\ q[2] \in rest) \/ (q[2] = a /\ q[1] \in rest)
                      THEN LET j == IF q[1] = a THEN q[2] ELSE q[1] IN st.D[Key(a, j)] + st.D[Key(b, j)] + 2 * st.eps
                      ELSE st.D[q]]
    IN [alive |-> st.alive \ {b}, D |-> D2, eps |-> 2 * st.eps,
        clade |-> [st.clade EXCEPT ![a] = st.clade[a] \cup st.clade[b]],
        joins |-> Append(st.joins, <<st.clade[a], st.clade[b]>>)]

RECURSIVE Run(_)
Run(st) == IF Cardinality(st.alive) <= 1 THEN st ELSE Run(Join(st))

(* the clades (leaf sets of internal nodes) of the finished tree *)
Clades(n, D0, eps0) ==
    LET fin == Run(InitU(n, D0, eps0))
    IN {fin.joins[k][1] \cup fin.joins[k][2] : k \in 1..Len(fin.joins)}

(* the smallest decision margin met on the way *)
RECURSIVE MinGap(_)
MinGap(st) == IF Cardinality(st.alive) <= 2 THEN 1000000000
              ELSE LET g == Gap(st) r == MinGap(Join(st)) IN IF g < r THEN g ELSE r

(* clades of a task list <<a, b, c>> over leaves 0..n-1 (as logged): leaf sets as 1-based indices *)
TaskClades(n, tasks) ==
    LET RECURSIVE Leaves(_)
        Leaves(x) == IF x < n THEN {x + 1}
                     ELSE LET t == CHOOSE k \in 1..Len(tasks) : tasks[k][3] = x IN Leaves(tasks[t][1]) \cup Leaves(tasks[t][2])
    IN {Leaves(tasks[k][3]) : k \in 1..Len(tasks)}
=============================================================================
