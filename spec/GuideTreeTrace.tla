--------------------------- MODULE GuideTreeTrace ---------------------------
(* binds GuideTree!Run (UPGMA) to the code: for runs with at most 8 sequences the pairwise distance matrix logged by the
   Dm hook (pair = 1, units of 1e-4) is fed to the specification's UPGMA and the clades are compared with the tasks of the
   Tree event.  Cases in which some join is decided by less than 4 units (float32 averaging could decide otherwise) are
   skipped.  Diagnostic only (KVDIV). *)
EXTENDS GuideTree, Json, IOUtils
Trace == ndJsonDeserialize(IOEnv.TRACE)
VARIABLES l, dm, viol
vars == <<l, dm, viol>>
Ev == Trace[l]
Is(e) == l <= Len(Trace) /\ Trace[l].e = e
Init == l = 1 /\ dm = [k |-> "none"] /\ viol = {}
TDm == /\ Is("Dm") /\ l' = l + 1 /\ viol' = {}
       /\ dm' = IF Ev.pair = 1 /\ "d" \in DOMAIN Ev /\ Ev.rows <= 8 /\ Ev.rows >= 2 THEN [k |-> "dm", n |-> Ev.rows, d |-> Ev.d] ELSE [k |-> "none"]
TTree ==
    /\ Is("Tree") /\ l' = l + 1 /\ dm' = [k |-> "none"]
    /\ IF dm.k # "dm" \/ dm.n # Ev.n THEN viol' = {}
       ELSE LET n == dm.n
                D0 == [p \in {<<i, j>> \in (1..n) \X (1..n) : i < j} |-> dm.d[(p[1] - 1) * n + p[2]]]
                st == InitU(n, D0, 10)
                tasks == [k \in 1..Ev.ntasks |-> <<Ev.abc[3 * k - 2], Ev.abc[3 * k - 1], Ev.abc[3 * k]>>]
            IN IF n > 2 /\ MinGap(st) < 4 * 64 THEN PrintT(<<"KVSKIP", l, "upgma", "near-tie">>) /\ viol' = {}
               ELSE /\ viol' = IF Clades(n, D0, 10) # TaskClades(n, tasks) THEN {"GuideTree.upgma-clades-differ"} ELSE {}
                    /\ IF viol' # {} THEN PrintT(<<"KVDIV", l, "upgma", viol'>>) ELSE TRUE
TOther == l <= Len(Trace) /\ Ev.e \notin {"Dm", "Tree"} /\ l' = l + 1 /\ UNCHANGED dm /\ viol' = {}
Next == TDm \/ TTree \/ TOther
Spec == Init /\ [][Next]_vars
Accepted == TLCGet("stats").diameter - 1 = Len(Trace)
=============================================================================
