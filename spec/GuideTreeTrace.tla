--------------------------- MODULE GuideTreeTrace ---------------------------
(* binds GuideTree!Run (UPGMA) to the code: for runs with at most 8 sequences the pairwise distance matrix logged by the
   Dm hook (pair = 1, units of 1e-4) is fed to the specification's UPGMA and the clades are compared with the tasks of the
   Tree event.  Cases in which some join is decided by less than 4 units (float32 averaging could decide otherwise) are
   skipped.  The matrix itself is re-derived too (sequence_distance.c d_estimation / calc_distance): entry (i, j), i < j in
   canonical order, is the semi-global edit distance (Myers!SemiGlobal) of the j-th sequence as pattern in the i-th as text,
   on the guide-tree alphabet (DNA codes, or the 13 classes for protein), plus min(10000, (len_i + len_j) div 2) / 10000.
   Diagnostic only (KVDIV). *)
EXTENDS GuideTree, Alphabet, Json, IOUtils
M == INSTANCE Myers
Trace == ndJsonDeserialize(IOEnv.TRACE)
VARIABLES l, dm, inp, ctx, viol
vars == <<l, dm, inp, ctx, viol>>
Ev == Trace[l]
Is(e) == l <= Len(Trace) /\ Trace[l].e = e
Init == l = 1 /\ dm = [k |-> "none"] /\ inp = <<>> /\ ctx = [bio |-> -1, ranks |-> <<>>] /\ viol = {}
TIn == /\ Is("Obj") /\ Ev.tag = "in" /\ l' = l + 1 /\ inp' = Ev.seqs /\ ctx' = [bio |-> -1, ranks |-> <<>>] /\ UNCHANGED dm /\ viol' = {}
TRunBegin == /\ Is("RunBegin") /\ l' = l + 1 /\ ctx' = [ctx EXCEPT !.bio = Ev.biotype] /\ UNCHANGED <<dm, inp>> /\ viol' = {}
TSorted == /\ Is("Sorted") /\ l' = l + 1 /\ ctx' = [ctx EXCEPT !.ranks = Ev.ranks] /\ UNCHANGED <<dm, inp>> /\ viol' = {}
Abs(x) == IF x < 0 THEN -x ELSE x
TDm == /\ Is("Dm") /\ l' = l + 1 /\ UNCHANGED <<inp, ctx>>
       /\ dm' = IF Ev.pair = 1 /\ "d" \in DOMAIN Ev /\ Ev.rows <= 8 /\ Ev.rows >= 2 THEN [k |-> "dm", n |-> Ev.rows, d |-> Ev.d] ELSE [k |-> "none"]
       /\ IF Ev.pair = 1 /\ "d" \in DOMAIN Ev /\ Ev.rows <= 8 /\ Ev.rows >= 2 /\ Len(inp) = Ev.rows /\ Len(ctx.ranks) = Ev.rows /\ ctx.bio \in {0, 1}
          THEN LET n == Ev.rows
                   alpha == IF ctx.bio = 1 THEN A_DNA ELSE A_RED13
                   sq(k) == LET raw == inp[ctx.ranks[k] + 1] IN [x \in 1..Len(raw) |-> Code(alpha, raw[x])]
                   model(i, j) == 10000 * M!SemiGlobal(sq(i), M!Prefix(sq(j), 1024))
                                  + (LET h == (Len(sq(i)) + Len(sq(j))) \div 2 IN IF h > 10000 THEN 10000 ELSE h)
                   bad == {p \in {<<i, j>> \in (1..n) \X (1..n) : i < j} :
                             Abs(Ev.d[(p[1] - 1) * n + p[2]] - model(p[1], p[2])) > (IF model(p[1], p[2]) > 2000000 THEN 1 ELSE 0)
                             \/ Ev.d[(p[2] - 1) * n + p[1]] # Ev.d[(p[1] - 1) * n + p[2]]}
               IN /\ viol' = IF bad # {} THEN {"GuideTree.distance-matrix-differs"} ELSE {}
                  /\ PrintT(<<"KVDM", l, n>>)
                  /\ IF bad # {} THEN PrintT(<<"KVDIV", l, "distances", viol'>>) /\ PrintT(<<"KVINFO", l, bad>>) ELSE TRUE
          ELSE viol' = {}
TTree ==
    /\ Is("Tree") /\ l' = l + 1 /\ dm' = [k |-> "none"] /\ UNCHANGED <<inp, ctx>>
    /\ IF dm.k # "dm" \/ dm.n # Ev.n THEN viol' = {}
       ELSE LET n == dm.n
                D0 == [p \in {<<i, j>> \in (1..n) \X (1..n) : i < j} |-> dm.d[(p[1] - 1) * n + p[2]]]
                st == InitU(n, D0, 10)
                tasks == [k \in 1..Ev.ntasks |-> <<Ev.abc[3 * k - 2], Ev.abc[3 * k - 1], Ev.abc[3 * k]>>]
            IN IF n > 2 /\ MinGap(st) < 4 * 64 THEN PrintT(<<"KVSKIP", l, "upgma", "near-tie">>) /\ viol' = {}
               ELSE /\ viol' = IF Clades(n, D0, 10) # TaskClades(n, tasks) THEN {"GuideTree.upgma-clades-differ"} ELSE {}
                    /\ IF viol' # {} THEN PrintT(<<"KVDIV", l, "upgma", viol'>>) ELSE TRUE
TOther == /\ l <= Len(Trace) /\ Ev.e \notin {"Dm", "Tree", "RunBegin", "Sorted"} /\ ~(Ev.e = "Obj" /\ Ev.tag = "in")
          /\ l' = l + 1 /\ UNCHANGED <<dm, inp, ctx>> /\ viol' = {}
Next == TIn \/ TRunBegin \/ TSorted \/ TDm \/ TTree \/ TOther
Spec == Init /\ [][Next]_vars
Accepted == TLCGet("stats").diameter - 1 = Len(Trace)
=============================================================================
