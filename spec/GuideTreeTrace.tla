--------------------------- MODULE GuideTreeTrace ---------------------------
(* binds GuideTree!Run (UPGMA) to the code: for runs with at most 8 sequences the pairwise distance matrix logged by the
   Dm hook (pair = 1, units of 1e-4) is fed to the specification's UPGMA and the clades are compared with the tasks of the
   Tree event.  Cases in which some join is decided by less than 4 units (float32 averaging could decide otherwise) are
   skipped.  The matrix itself is re-derived too (sequence_distance.c d_estimation / calc_distance): entry (i, j), i < j in
   canonical order, is the semi-global edit distance (Myers!SemiGlobal) of the j-th sequence as pattern in the i-th as text,
   on the guide-tree alphabet (DNA codes, or the 13 classes for protein), plus min(10000, (len_i + len_j) div 2) / 10000.
   Diagnostic only (KVDIV).
   Front end (module Anchor, events Anchors / Dm with pair = 0 / KmSplit with members, hook level 2): the anchors the code picked
   are well-formed for the lengths of the Sorted event (Anchor!WellFormed, Cap = 32); every entry of the numseq x anchors matrix
   is Anchor!AnchorDist of the two sequences (re-derived when the dynamic programmes fit a budget of 3 000 000 cells); and every
   try of split2 that did not end in the halves fallback returned two clusters in which no member is nearer to the mean of the
   other cluster than to its own by more than the rounding slack (Anchor!Misplaced on the logged matrix, coarsened so that
   32-bit integers suffice), partitions the samples and keeps their order.  Also diagnostic (KVDIV). *)
EXTENDS GuideTree, Alphabet, Json, IOUtils, SequencesExt
M == INSTANCE Myers
A == INSTANCE Anchor
Trace == ndJsonDeserialize(IOEnv.TRACE)
VARIABLES l, dm, inp, ctx, viol
vars == <<l, dm, inp, ctx, viol>>
Ev == Trace[l]
Is(e) == l <= Len(Trace) /\ Trace[l].e = e
Init == l = 1 /\ dm = [k |-> "none"] /\ inp = <<>> /\ ctx = [bio |-> -1, ranks |-> <<>>, lens |-> <<>>, anch |-> <<>>, X |-> <<>>] /\ viol = {}
TIn == /\ Is("Obj") /\ Ev.tag = "in" /\ l' = l + 1 /\ inp' = Ev.seqs /\ ctx' = [bio |-> -1, ranks |-> <<>>, lens |-> <<>>, anch |-> <<>>, X |-> <<>>] /\ UNCHANGED dm /\ viol' = {}
TRunBegin == /\ Is("RunBegin") /\ l' = l + 1 /\ ctx' = [ctx EXCEPT !.bio = Ev.biotype] /\ UNCHANGED <<dm, inp>> /\ viol' = {}
TSorted == /\ Is("Sorted") /\ l' = l + 1 /\ ctx' = [ctx EXCEPT !.ranks = Ev.ranks, !.lens = Ev.lens, !.anch = <<>>, !.X = <<>>] /\ UNCHANGED <<dm, inp>> /\ viol' = {}
Abs(x) == IF x < 0 THEN -x ELSE x
SumSeq(q) == FoldLeft(LAMBDA acc, x : acc + x, 0, q)
MaxSeq(q) == FoldLeft(LAMBDA acc, x : IF x > acc THEN x ELSE acc, 0, q)
TAnchors ==
    /\ Is("Anchors") /\ l' = l + 1 /\ UNCHANGED <<dm, inp>>
    /\ ctx' = [ctx EXCEPT !.anch = Ev.a]
    /\ IF Len(ctx.lens) = Ev.numseq /\ Ev.numseq >= 1
       THEN /\ viol' = IF A!WellFormed(32, ctx.lens, Ev.a) THEN {} ELSE {"Anchor.selection-differs"}
            /\ PrintT(<<"KVANCH", l, Ev.n>>)
            /\ IF viol' # {} THEN PrintT(<<"KVDIV", l, "anchors", viol'>>) ELSE TRUE
       ELSE viol' = {}
(* the numseq x anchors matrix: re-derived, and kept (coarsened) for the fixed-point check of the k-means tries *)
TDm0 ==
    /\ Is("Dm") /\ Ev.pair = 0 /\ l' = l + 1 /\ UNCHANGED <<dm, inp>>
    /\ IF "d" \in DOMAIN Ev /\ Len(ctx.anch) = Ev.cols /\ Len(ctx.lens) = Ev.rows
       THEN LET n == Ev.rows  k == Ev.cols
                unit == MaxSeq(Ev.d) \div 4000 + 1
                X == [i \in 1..n |-> [j \in 1..k |-> Ev.d[(i - 1) * k + j] \div unit]]
                sl == SumSeq(ctx.lens)
                sa == SumSeq([j \in 1..k |-> ctx.lens[ctx.anch[j] + 1]])
                fits == Len(inp) = n /\ Len(ctx.ranks) = n /\ ctx.bio \in {0, 1} /\ sl <= 40000 /\ sa <= 40000 /\ sl * sa <= 3000000
                alpha == IF ctx.bio = 1 THEN A_DNA ELSE A_RED13
                sq(c) == LET raw == inp[ctx.ranks[c] + 1] IN [x \in 1..Len(raw) |-> Code(alpha, raw[x])]
                bad == IF fits THEN {p \in (1..n) \X (1..k) :
                                        LET md == A!AnchorDist(sq(p[1]), sq(ctx.anch[p[2]] + 1))
                                        IN Abs(Ev.d[(p[1] - 1) * k + p[2]] - md) > (IF md > 2000000 THEN 1 ELSE 0)}
                       ELSE {}
            IN /\ ctx' = [ctx EXCEPT !.X = X]
               /\ viol' = IF bad # {} THEN {"Anchor.distance-matrix-differs"} ELSE {}
               /\ IF fits THEN PrintT(<<"KVDM0", l, n * k>>) ELSE TRUE
               /\ IF bad # {} THEN PrintT(<<"KVDIV", l, "anchor-distances", viol'>>) /\ PrintT(<<"KVINFO", l, bad>>) ELSE TRUE
       ELSE ctx' = [ctx EXCEPT !.X = <<>>] /\ viol' = {}
TKmSplit ==
    /\ Is("KmSplit") /\ l' = l + 1 /\ UNCHANGED <<dm, inp, ctx>>
    /\ IF "s" \in DOMAIN Ev /\ ctx.X # <<>> /\ \A i \in 1..Len(Ev.s) : Ev.s[i] + 1 \in 1..Len(ctx.X)
       THEN LET idx == [i \in 1..Len(Ev.s) |-> Ev.s[i] + 1]
                cl == [i \in 1..Len(Ev.sl) |-> Ev.sl[i] + 1]
                cr == [i \in 1..Len(Ev.sr) |-> Ev.sr[i] + 1]
                part == A!Partition(idx, cl, cr)
                pos == [x \in ToSet(idx) |-> CHOOSE i \in 1..Len(idx) : idx[i] = x]
                kept(c) == \A i \in 1..(Len(c) - 1) : pos[c[i]] < pos[c[i + 1]]
                mis == IF part /\ Ev.degenerate = 0 THEN A!Misplaced(ctx.X, cl, cr) ELSE {}
            IN /\ viol' = (IF ~part THEN {"Anchor.kmeans-not-a-partition"} ELSE {})
                          \cup (IF part /\ ~(kept(cl) /\ kept(cr)) THEN {"Anchor.kmeans-order-not-kept"} ELSE {})
                          \cup (IF mis # {} THEN {"Anchor.kmeans-not-a-fixed-point"} ELSE {})
               /\ PrintT(<<"KVKM", l, Len(idx), Ev.degenerate>>)
               /\ IF viol' # {} THEN PrintT(<<"KVDIV", l, "kmeans", viol'>>) /\ PrintT(<<"KVINFO", l, mis>>) ELSE TRUE
       ELSE viol' = {}
TDm == /\ Is("Dm") /\ Ev.pair # 0 /\ l' = l + 1 /\ UNCHANGED <<inp, ctx>>
       /\ dm' = IF Ev.pair = 1 /\ "d" \in DOMAIN Ev /\ Ev.rows <= 8 /\ Ev.rows >= 2 THEN [k |-> "dm", n |-> Ev.rows, d |-> Ev.d] ELSE [k |-> "none"]
       /\ IF Ev.pair = 1 /\ "d" \in DOMAIN Ev /\ Ev.rows <= 8 /\ Ev.rows >= 2 /\ Len(inp) = Ev.rows /\ Len(ctx.ranks) = Ev.rows /\ ctx.bio \in {0, 1}
          THEN LET n == Ev.rows
                   alpha == IF ctx.bio = 1 THEN A_DNA ELSE A_RED13
                   sq(k) == LET raw == inp[ctx.ranks[k] + 1] IN [x \in 1..Len(raw) |-> Code(alpha, raw[x])]
                   model(i, j) == 10000 * M!SemiGlobal(sq(i), M!Prefix(sq(j), 1024))
                                  + (LET h == (Len(sq(i)) + Len(sq(j))) \div 2 IN IF h > 10000 THEN 10000 ELSE h)
                   bad == {p \in {<<i, j>> \in (1..n) \X (1..n) : i < j} :
                             Abs(Ev.d[(p[1] - 1) * n + p[2]] - model(p[1], p[2])) > (IF model(p[1], p[2]) > 2000000 THEN 1 ELSE 0)
                             \/ Ev.d[(p[2] - 1) * n + p[1]] # Ev.d[(p[1] - 1) * n + p[2]]}
               IN /\ viol' = IF bad # {} THEN {"GuideTree.distance-matrix-differs"} ELSE {}
                  /\ PrintT(<<"KVDM", l, n>>)
                  /\ IF bad # {} THEN PrintT(<<"KVDIV", l, "distances", viol'>>) /\ PrintT(<<"KVINFO", l, bad>>) ELSE TRUE
          ELSE viol' = {}
TTree ==
    /\ Is("Tree") /\ l' = l + 1 /\ dm' = [k |-> "none"] /\ UNCHANGED <<inp, ctx>>
    /\ IF dm.k # "dm" \/ dm.n # Ev.n THEN viol' = {}
       ELSE LET n == dm.n
                D0 == [p \in {<<i, j>> \in (1..n) \X (1..n) : i < j} |-> dm.d[(p[1] - 1) * n + p[2]]]
                st == InitU(n, D0, 10)
                tasks == [k \in 1..Ev.ntasks |-> <<Ev.abc[3 * k - 2], Ev.abc[3 * k - 1], Ev.abc[3 * k]>>]
            IN IF n > 2 /\ MinGap(st) < 4 * 64 THEN PrintT(<<"KVSKIP", l, "upgma", "near-tie">>) /\ viol' = {}
               ELSE /\ viol' = IF Clades(n, D0, 10) # TaskClades(n, tasks) THEN {"GuideTree.upgma-clades-differ"} ELSE {}
                    /\ IF viol' # {} THEN PrintT(<<"KVDIV", l, "upgma", viol'>>) ELSE TRUE
TOther == /\ l <= Len(Trace) /\ Ev.e \notin {"Dm", "Tree", "RunBegin", "Sorted", "Anchors", "KmSplit"} /\ ~(Ev.e = "Obj" /\ Ev.tag = "in")
          /\ l' = l + 1 /\ UNCHANGED <<dm, inp, ctx>> /\ viol' = {}
Next == TIn \/ TRunBegin \/ TSorted \/ TAnchors \/ TDm0 \/ TKmSplit \/ TDm \/ TTree \/ TOther
Spec == Init /\ [][Next]_vars
Accepted == TLCGet("stats").diameter - 1 = Len(Trace)
=============================================================================
