----------------------------- MODULE HirschTrace -----------------------------
(* the recorded steps of the Hirschberg controller (HStep / HSplit, serial and parallel) follow Hirschberg!Children:
   every step works on the sub-rectangle its parent's split prescribes, splits at Mid, and returns an allowed (meet, transition) *)
EXTENDS Hirschberg, Json, IOUtils
Trace == ndJsonDeserialize(IOEnv.TRACE)
VARIABLES l, stk, cur, viol
vars == <<l, stk, cur, viol>>
Ev == Trace[l]
Is(e) == l <= Len(Trace) /\ Trace[l].e = e
Init == l = 1 /\ stk = <<>> /\ cur = <<>> /\ viol = {}
Put(f, k, v) == [x \in (DOMAIN f) \cup {k} |-> IF x = k THEN v ELSE f[x]]
Get(f, k) == IF k \in DOMAIN f THEN f[k] ELSE <<>>
RECURSIVE DropLeaves(_)
DropLeaves(s) == IF s # <<>> /\ Degenerate(s[Len(s)]) THEN DropLeaves(SubSeq(s, 1, Len(s) - 1)) ELSE s
Report(v) == viol' = v /\ IF v # {} THEN PrintT(<<"KVDIV", l, "hirschberg", v>>) ELSE TRUE

THStep ==
    /\ Is("HStep")
    /\ l' = l + 1
    /\ LET r == <<Ev.sa, Ev.ea, Ev.sb, Ev.eb>>
           s == DropLeaves(Get(stk, Ev.m))
       IN IF s = <<>>
          THEN /\ stk' = Put(stk, Ev.m, <<>>)
               /\ cur' = Put(cur, Ev.m, r)
               /\ Report(IF r[1] # 0 \/ r[3] # 0 THEN {"Hirschberg.top-level-rectangle-does-not-start-at-0"} ELSE {})
          ELSE /\ stk' = Put(stk, Ev.m, SubSeq(s, 1, Len(s) - 1))
               /\ cur' = Put(cur, Ev.m, r)
               /\ Report(IF s[Len(s)] # r THEN {"Hirschberg.step-on-unexpected-sub-rectangle"} ELSE {})

THSplit ==
    /\ Is("HSplit")
    /\ l' = l + 1
    /\ LET r == <<Ev.sa, Ev.ea, Ev.sb, Ev.eb>>
           known == Ev.m \in DOMAIN cur /\ cur[Ev.m] = r
           ok == Ev.tr \in Trans /\ Allowed(r, Ev.meet, Ev.tr)
       IN /\ stk' = IF ok THEN Put(stk, Ev.m, Get(stk, Ev.m) \o <<Children(r, Ev.meet, Ev.tr)[2], Children(r, Ev.meet, Ev.tr)[1]>>) ELSE stk
          /\ UNCHANGED cur
          /\ Report((IF ~known THEN {"Hirschberg.split-without-step"} ELSE {})
                    \cup (IF Ev.mid # Mid(r) THEN {"Hirschberg.mid"} ELSE {})
                    \cup (IF ~ok THEN {"Hirschberg.meet-or-transition-not-allowed"} ELSE {}))

TOther == l <= Len(Trace) /\ Ev.e \notin {"HStep", "HSplit"} /\ l' = l + 1 /\ UNCHANGED <<stk, cur>> /\ viol' = {}
Next == THStep \/ THSplit \/ TOther
Spec == Init /\ [][Next]_vars
Accepted == TLCGet("stats").diameter - 1 = Len(Trace)
=============================================================================
