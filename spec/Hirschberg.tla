----------------------------- MODULE Hirschberg -----------------------------
(***************************************************************************)
(* The divide-and-conquer controller of the pairwise alignment              *)
(* (aln_controller.c aln_runner / aln_runner_serial / aln_continue).        *)
(* A rectangle <<sa, ea, sb, eb>> (rows sa+1..ea of the shorter side,       *)
(* columns sb+1..eb of the other) is split at row mid = sa + (ea-sa) div 2; *)
(* the meetup chooses a column `meet` and a transition tr:                  *)
(*   1 a->a   2 a->ga   3 a->gb   5 ga->a   6 gb->gb   7 gb->a              *)
(* which fixes path cells (path[row] = column aligned with that row) and    *)
(* the two sub-rectangles.  Degenerate rectangles (no rows or no columns)   *)
(* are leaves.  The model leaves meet and tr to the environment (the DP),   *)
(* restricted only by what the meetup can return: meet in sb..eb and, at    *)
(* meet = eb, only transitions 3 and 6.                                     *)
(* Properties: C07 (structure of the recursion), C01 (valid path).          *)
(***************************************************************************)
EXTENDS Integers, Sequences, FiniteSets, TLC

Trans == {1, 2, 3, 5, 6, 7}
Degenerate(r) == r[1] >= r[2] \/ r[3] >= r[4]
Mid(r) == (r[2] - r[1]) \div 2 + r[1]

(* what the meetup can return: the forward "aligned" state at column meet exists only after at least one row and one
   column (or, with no forward rows at all (mid = sa), as the boundary state at column sb itself); the backward "aligned"
   state needs a column to the right of meet *)
Allowed(r, meet, tr) ==
    /\ meet \in r[3]..r[4] /\ tr \in Trans
    /\ (meet = r[4] => tr \in {3, 6})
    /\ (tr \in {1, 2, 3} => IF Mid(r) > r[1] THEN meet > r[3] ELSE meet = r[3])

(* the two sub-rectangles, in the order the code visits them *)
Children(r, meet, tr) ==
    LET sa == r[1] ea == r[2] sb == r[3] eb == r[4] mid == Mid(r)
    IN CASE tr = 1 -> << <<sa, mid - 1, sb, meet - 1>>, <<mid + 1, ea, meet + 1, eb>> >>
         [] tr = 2 -> << <<sa, mid - 1, sb, meet - 1>>, <<mid, ea, meet + 1, eb>> >>
         [] tr = 3 -> << <<sa, mid - 1, sb, meet - 1>>, <<mid + 1, ea, meet, eb>> >>
         [] tr = 5 -> << <<sa, mid, sb, meet - 1>>, <<mid + 1, ea, meet + 1, eb>> >>
         [] tr = 6 -> << <<sa, mid - 1, sb, meet>>, <<mid + 1, ea, meet, eb>> >>
         [] tr = 7 -> << <<sa, mid - 1, sb, meet>>, <<mid + 1, ea, meet + 1, eb>> >>

(* path cells written by the split: set of <<row index, column>> (indices as in the code's path[] array) *)
Cells(r, meet, tr) ==
    LET mid == Mid(r)
        left == IF mid > r[1] THEN {<<mid, meet>>} ELSE {}     \* with mid = sa this only re-writes the boundary cell of the parent
    IN CASE tr = 1 -> left \cup {<<mid + 1, meet + 1>>}
         [] tr \in {2, 3} -> left
         [] tr \in {5, 7} -> {<<mid + 1, meet + 1>>}
         [] tr = 6 -> {}
=============================================================================
