------------------------------- MODULE Kalign -------------------------------
(***************************************************************************)
(* The pipeline of one kalign_run (aln_wrap.c), as phases and the facts     *)
(* that connect them:                                                       *)
(*   P1 Ranked    rank = input index; zero-length records removed           *)
(*   P3 Sorted    canonical order: length descending, then name ascending   *)
(*                (strncmp on bytes): a function of the record SET          *)
(*   P5 Guide     distances (Dm), bisecting k-means / UPGMA (Km events)          *)
(*   P7 Params    parameters in force                                       *)
(*   P8 Tree      n-1 tasks <<a,b,c>>: c = n..2n-2 in order, children       *)
(*                before parents, every node consumed exactly once          *)
(*      Merge*    every task merged once, after its children; profile       *)
(*                length between the longer child and the sum               *)
(*   P9 Final     alnlen = profile length of the root                       *)
(* Properties served: C03 (canonical order), C01, C02; diagnostic for all.  *)
(***************************************************************************)
EXTENDS Integers, Sequences, FiniteSets, Ascii, TLC

(* canonical order of records [len, name, rank]: before(x, y) *)
Before(x, y) == x.len > y.len \/ (x.len = y.len /\ CmpSeq(x.name, y.name) < 0)

(* s is sorted canonically (ties in both keys may stand in any order) *)
IsCanon(s) == \A i \in 1..(Len(s) - 1) : ~Before(s[i + 1], s[i])

TreeOk(n, tasks) ==
    /\ Len(tasks) = n - 1
    /\ \A k \in 1..Len(tasks) :
         /\ tasks[k][3] = n + k - 1
         /\ tasks[k][1] < tasks[k][3] /\ tasks[k][2] < tasks[k][3]
         /\ tasks[k][1] >= 0 /\ tasks[k][2] >= 0 /\ tasks[k][1] # tasks[k][2]
    /\ LET kids == [k \in 1..(2 * Len(tasks)) |-> tasks[(k + 1) \div 2][IF k % 2 = 1 THEN 1 ELSE 2]]
       IN /\ Cardinality({kids[k] : k \in 1..Len(kids)}) = Len(kids)
          /\ {kids[k] : k \in 1..Len(kids)} = 0..(2 * n - 3)
=============================================================================
