---------------------------- MODULE KalignTrace ----------------------------
(* one automaton per kalign_run over the hook events; Obj "in" supplies the names (rank -> name) *)
EXTENDS Kalign, Json, IOUtils
Trace == ndJsonDeserialize(IOEnv.TRACE)
VARIABLES l, sid, names, phase, n, tasks, plen, merged, viol
vars == <<l, sid, names, phase, n, tasks, plen, merged, viol>>
Ev == Trace[l]
Is(e) == l <= Len(Trace) /\ Trace[l].e = e
Init == l = 1 /\ sid = "none" /\ names = <<>> /\ phase = "idle" /\ n = 0 /\ tasks = <<>> /\ plen = <<>> /\ merged = {} /\ viol = {}
Report(v) == viol' = v /\ IF v # {} THEN PrintT(<<"KVDIV", l, sid, v>>) ELSE TRUE
Keep(vs) == UNCHANGED vs

TNote == Is("Note") /\ l' = l + 1 /\ sid' = Ev.text /\ UNCHANGED <<names, phase, n, tasks, plen, merged>> /\ Report({})
TIn == /\ Is("Obj") /\ Ev.tag = "in" /\ l' = l + 1
       /\ names' = IF Ev.null = 0 THEN Ev.names ELSE <<>>
       /\ UNCHANGED <<sid, phase, n, tasks, plen, merged>> /\ Report({})
TRunBegin == /\ Is("RunBegin") /\ l' = l + 1 /\ phase' = "begun" /\ n' = 0 /\ tasks' = <<>> /\ plen' = <<>> /\ merged' = {}
             /\ UNCHANGED <<sid, names>> /\ Report(IF phase \notin {"idle", "ended"} THEN {"Pipeline.run-inside-run"} ELSE {})
TRanked == /\ Is("Ranked") /\ l' = l + 1 /\ phase' = "ranked" /\ UNCHANGED <<sid, names, n, tasks, plen, merged>>
           /\ Report((IF phase # "begun" THEN {"Pipeline.order:Ranked"} ELSE {})
                     \cup (IF \E i \in 1..Len(Ev.lens) : Ev.lens[i] = 0 THEN {"Pipeline.zero-length-kept"} ELSE {}))
TSorted ==
    /\ Is("Sorted") /\ l' = l + 1 /\ phase' = "sorted" /\ n' = Ev.n
    /\ UNCHANGED <<sid, names, tasks, plen, merged>>
    /\ LET havenames == names # <<>> /\ \A i \in 1..Ev.n : Ev.ranks[i] + 1 <= Len(names)
           recs == [i \in 1..Ev.n |-> [len |-> Ev.lens[i], name |-> IF havenames THEN names[Ev.ranks[i] + 1] ELSE <<>>, rank |-> Ev.ranks[i]]]
       IN Report((IF phase # "ranked" THEN {"Pipeline.order:Sorted"} ELSE {})
                 \cup (IF havenames /\ ~IsCanon(recs) THEN {"C03:canonical-order-is-not-(length-desc,name-asc)"} ELSE {})
                 \cup (IF Cardinality({Ev.ranks[i] : i \in 1..Ev.n}) # Ev.n THEN {"Pipeline.ranks-not-distinct"} ELSE {}))
TParams == /\ Is("Params") /\ l' = l + 1 /\ phase' = "params" /\ UNCHANGED <<sid, names, n, tasks, plen, merged>>
           /\ Report(IF phase # "sorted" THEN {"Pipeline.order:Params"} ELSE {})
TTree ==
    /\ Is("Tree") /\ l' = l + 1 /\ phase' = "tree"
    /\ tasks' = [k \in 1..Ev.ntasks |-> <<Ev.abc[3 * k - 2], Ev.abc[3 * k - 1], Ev.abc[3 * k]>>]
    /\ plen' = <<>> /\ merged' = {}
    /\ UNCHANGED <<sid, names, n>>
    /\ Report((IF phase # "params" THEN {"Pipeline.order:Tree"} ELSE {})
              \cup (IF ~TreeOk(Ev.n, tasks') THEN {"Pipeline.guide-tree-malformed"} ELSE {})
              \cup (IF Ev.n # n THEN {"Pipeline.n"} ELSE {}))
TMergeEnd ==
    /\ Is("MergeEnd") /\ l' = l + 1
    /\ merged' = merged \cup {Ev.c}
    /\ plen' = [x \in (DOMAIN plen) \cup {Ev.c} |-> IF x = Ev.c THEN Ev.plen ELSE plen[x]]
    /\ UNCHANGED <<sid, names, phase, n, tasks>>
    /\ LET la == Ev.la lb == Ev.lb
           big == IF la > lb THEN la ELSE lb
       IN Report((IF phase # "tree" THEN {"Pipeline.order:MergeEnd"} ELSE {})
                 \cup (IF Ev.c \in merged THEN {"Pipeline.node-merged-twice"} ELSE {})
                 \cup (IF Ev.plen < big \/ Ev.plen > la + lb THEN {"Pipeline.profile-length-out-of-bounds"} ELSE {})
                 \cup (IF Ev.a >= n /\ Ev.a \in DOMAIN plen /\ plen[Ev.a] # la THEN {"Pipeline.child-length"} ELSE {})
                 \cup (IF Ev.b >= n /\ Ev.b \in DOMAIN plen /\ plen[Ev.b] # lb THEN {"Pipeline.child-length"} ELSE {}))
TFinal ==
    /\ Is("Final") /\ l' = l + 1 /\ phase' = "final" /\ UNCHANGED <<sid, names, n, tasks, plen, merged>>
    /\ Report((IF phase # "tree" THEN {"Pipeline.order:Final"} ELSE {})
              \cup (IF Cardinality(merged) # Len(tasks) THEN {"Pipeline.not-every-task-merged"} ELSE {})
              \cup (IF Len(tasks) > 0 /\ (2 * n - 2) \in DOMAIN plen /\ plen[2 * n - 2] # Ev.alnlen THEN {"Pipeline.alnlen"} ELSE {}))
TRunEnd == /\ Is("RunEnd") /\ l' = l + 1 /\ phase' = "ended" /\ UNCHANGED <<sid, names, n, tasks, plen, merged>>
           /\ Report(IF Ev.rc = 0 /\ phase # "final" THEN {"Pipeline.success-without-final"} ELSE {})
Handled == {"Note", "RunBegin", "Ranked", "Sorted", "Params", "Tree", "MergeEnd", "Final", "RunEnd"}
TOther == /\ l <= Len(Trace) /\ ~(Ev.e \in Handled \/ (Ev.e = "Obj" /\ Ev.tag = "in")) /\ l' = l + 1
          /\ UNCHANGED <<sid, names, phase, n, tasks, plen, merged>> /\ viol' = {}
Next == TNote \/ TIn \/ TRunBegin \/ TRanked \/ TSorted \/ TParams \/ TTree \/ TMergeEnd \/ TFinal \/ TRunEnd \/ TOther
Spec == Init /\ [][Next]_vars
Accepted == TLCGet("stats").diameter - 1 = Len(Trace)
=============================================================================
