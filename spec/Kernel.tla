------------------------------- MODULE Kernel -------------------------------
(***************************************************************************)
(* The pairwise aligner of kalign for two single sequences, constructively: *)
(* the forward and backward passes (aln_seqseq.c aln_seqseq_foward /        *)
(* aln_seqseq_backward), the meet-in-the-middle choice (aln_seqseq_meetup), *)
(* and the recursion with its boundary states (aln_controller.c             *)
(* aln_runner_serial / aln_continue), composed with Hirschberg!Children and *)
(* Hirschberg!Cells.  `a` is the row sequence (seq1, the shorter one), `b`  *)
(* the column sequence (seq2); residues are codes 0..22.                    *)
(*                                                                          *)
(* Arithmetic.  kalign computes in float32.  Parameters are taken in units  *)
(* of 0.1 (as in Scoring) and multiplied by K = 200, so that one score unit *)
(* is 2000 and the tie-break term |middle - i| / 1000 of the meetup         *)
(* (middle = sb + (eb - sb) / 2) is the integer |sb + eb - 2 i|.  For       *)
(* parameter sets whose values are multiples of 0.5 and scores below 4096   *)
(* the float computation is exact up to the monotone rounding of that term, *)
(* so the integer model makes the same choices.  -FLT_MAX is NEG, absorbing.*)
(*                                                                          *)
(* A state vector is a sequence over the columns sb..eb (position p stands  *)
(* for column sb + p - 1) of records [a, ga, gb]: best score of a partial   *)
(* alignment ending aligned / in a gap in a (a column of b only) / in a gap *)
(* in b (a row only), with that many columns consumed.                      *)
(* Properties served: C07 (MC_Kernel: the recursion returns the certified   *)
(* unique optimum), C01, diagnostics for every recorded split.              *)
(***************************************************************************)
EXTENDS Integers, Sequences, SequencesExt, FiniteSets, TLC, Hirschberg

K == 200
NEG == -2000000000
Mx(x, y) == IF x > y THEN x ELSE y
Mx3(x, y, z) == Mx(x, Mx(y, z))
Pl(x, d) == IF x <= NEG \div 2 THEN NEG ELSE x + d
Add(x, y) == IF x <= NEG \div 2 \/ y <= NEG \div 2 THEN NEG ELSE x + y
Abs(x) == IF x < 0 THEN -x ELSE x
St(x, y, z) == [a |-> x, ga |-> y, gb |-> z]
NegSt == St(NEG, NEG, NEG)

(* q: parameters multiplied by K.  par = [subm (23 x 23 row major), gpo, gpe, tgpe] in units of 0.1 *)
Scale(par) == [subm |-> [k \in 1..Len(par.subm) |-> par.subm[k] * K], gpo |-> par.gpo * K, gpe |-> par.gpe * K, tgpe |-> par.tgpe * K]
Sb(q, x, y) == q.subm[x * 23 + y + 1]

-----------------------------------------------------------------------------
(* forward pass over rows sa+1 .. mid (indices into a), columns sb .. eb, from the boundary state f0 at column sb.
   Only column 0 of b / column Len(b) are terminal: there a gap run costs tgpe per position and nothing to open or close. *)
Forward(q, a, b, sa, mid, sb, eb, f0) ==
    LET lenb == Len(b)
        w == eb - sb + 1
        gaInit(prev) == IF sb > 0 THEN Mx(Pl(prev.ga, -q.gpe), Pl(prev.a, -q.gpo)) ELSE Pl(Mx(prev.ga, prev.a), -q.tgpe)
        row0 == Append(FoldLeft(LAMBDA acc, p : Append(acc, St(NEG, gaInit(acc[Len(acc)]), NEG)), <<f0>>, [p \in 1..(w - 2) |-> p]), NegSt)
        step(s, i) ==
            LET first == St(NEG, NEG, IF sb > 0 THEN Mx(Pl(s[1].gb, -q.gpe), Pl(s[1].a, -q.gpo)) ELSE Pl(Mx(s[1].gb, s[1].a), -q.tgpe))
                inner(acc, p) ==
                    LET old == s[p]
                        na == Pl(Mx3(acc.pa, Pl(acc.pga, -q.gpo), Pl(acc.pgb, -q.gpo)), Sb(q, a[i], b[sb + p - 1]))
                        nga == Mx(Pl(acc.xga, -q.gpe), Pl(acc.xa, -q.gpo))
                        ngb == Mx(Pl(old.gb, -q.gpe), Pl(old.a, -q.gpo))
                    IN [out |-> Append(acc.out, St(na, nga, ngb)), pa |-> old.a, pga |-> old.ga, pgb |-> old.gb, xa |-> na, xga |-> nga]
                r == FoldLeft(inner, [out |-> <<first>>, pa |-> s[1].a, pga |-> s[1].ga, pgb |-> s[1].gb, xa |-> NEG, xga |-> NEG],
                              [p \in 1..(w - 2) |-> p + 1])
                oldl == s[w]
                la == Pl(Mx3(r.pa, Pl(r.pga, -q.gpo), Pl(r.pgb, -q.gpo)), Sb(q, a[i], b[eb]))
                lgb == IF eb # lenb THEN Mx(Pl(oldl.gb, -q.gpe), Pl(oldl.a, -q.gpo)) ELSE Pl(Mx(oldl.gb, oldl.a), -q.tgpe)
            IN Append(r.out, St(la, NEG, lgb))
    IN FoldLeft(step, row0, [k \in 1..(mid - sa) |-> sa + k])

(* backward pass over rows ea .. mid+1 (downwards), columns eb .. sb, from the boundary state b0 at column eb.
   Position p of the result again stands for column sb + p - 1: p columns... consumed before the split. *)
Backward(q, a, b, mid, ea, sb, eb, b0) ==
    LET lenb == Len(b)
        w == eb - sb + 1
        Rv(s) == [k \in 1..Len(s) |-> s[Len(s) - k + 1]]
        gaInit(nxt) == IF eb # lenb THEN Mx(Pl(nxt.ga, -q.gpe), Pl(nxt.a, -q.gpo)) ELSE Pl(Mx(nxt.ga, nxt.a), -q.tgpe)
        \* vectors are built from column eb downwards and reversed at the end: rs[k] stands for column eb - k + 1
        row0r == Append(FoldLeft(LAMBDA acc, p : Append(acc, St(NEG, gaInit(acc[Len(acc)]), NEG)), <<b0>>, [p \in 1..(w - 2) |-> p]), NegSt)
        step(rs, i) ==
            LET first == St(NEG, NEG, IF eb # lenb THEN Mx(Pl(rs[1].gb, -q.gpe), Pl(rs[1].a, -q.gpo)) ELSE Pl(Mx(rs[1].gb, rs[1].a), -q.tgpe))
                inner(acc, k) ==
                    \* k-th entry from the right: column j = eb - k + 1, residue seq2[j] (0-based) = b[j + 1]
                    LET old == rs[k]
                        na == Pl(Mx3(acc.pa, Pl(acc.pga, -q.gpo), Pl(acc.pgb, -q.gpo)), Sb(q, a[i], b[eb - k + 2]))
                        nga == Mx(Pl(acc.xga, -q.gpe), Pl(acc.xa, -q.gpo))
                        ngb == Mx(Pl(old.gb, -q.gpe), Pl(old.a, -q.gpo))
                    IN [out |-> Append(acc.out, St(na, nga, ngb)), pa |-> old.a, pga |-> old.ga, pgb |-> old.gb, xa |-> na, xga |-> nga]
                r == FoldLeft(inner, [out |-> <<first>>, pa |-> rs[1].a, pga |-> rs[1].ga, pgb |-> rs[1].gb, xa |-> NEG, xga |-> NEG],
                              [k \in 1..(w - 2) |-> k + 1])
                oldl == rs[w]
                la == Pl(Mx3(r.pa, Pl(r.pga, -q.gpo), Pl(r.pgb, -q.gpo)), Sb(q, a[i], b[sb + 1]))
                lgb == IF sb > 0 THEN Mx(Pl(oldl.gb, -q.gpe), Pl(oldl.a, -q.gpo)) ELSE Pl(Mx(oldl.gb, oldl.a), -q.tgpe)
            IN Append(r.out, St(la, NEG, lgb))
    IN Rv(FoldLeft(step, row0r, [k \in 1..(ea - mid) |-> ea - k + 1]))

-----------------------------------------------------------------------------
(* the meetup: scan the columns sb .. eb-1 and then eb; candidates in the order of the code; a candidate replaces the
   best so far only if it is strictly better.  mode "fixed": a gap run crossing the split row is terminal only at
   column 0; mode "pinned": at every column of a rectangle that starts at column 0 (the defect repaired by 24dd196).
   `second` is the best value among the candidates that did not win: max - second is the margin of the decision. *)
Meetup(q, f, bk, sb, eb, lenb, mode) ==
    LET w == eb - sb + 1
        tb(i) == Abs(sb + eb - 2 * i)
        upd(best, v, tr, i) == IF v > best.max THEN [max |-> v, c |-> i, tr |-> tr, second |-> best.max]
                               ELSE IF v > best.second THEN [best EXCEPT !.second = v] ELSE best
        crossL(i) == IF (IF mode = "pinned" THEN sb = 0 ELSE i = 0) THEN q.tgpe ELSE q.gpe
        col(best, p) ==
            LET i == sb + p - 1
                F == f[p]
                B == bk[p]
                t == tb(i)
                b1 == upd(best, Pl(Add(F.a, B.a), -t), 1, i)
                b2 == upd(b1, Pl(Add(F.a, B.ga), -q.gpo - t), 2, i)
                b3 == upd(b2, Pl(Add(F.a, B.gb), -q.gpo - t), 3, i)
                b5 == upd(b3, Pl(Add(F.ga, B.a), -q.gpo - t), 5, i)
                b6 == upd(b5, Pl(Add(F.gb, B.gb), -crossL(i) - t), 6, i)
            IN upd(b6, Pl(Add(F.gb, B.a), -q.gpo - t), 7, i)
        inner == FoldLeft(col, [max |-> NEG, c |-> -1, tr |-> -1, second |-> NEG], [p \in 1..(w - 1) |-> p])
        F == f[w]
        B == bk[w]
        t == tb(eb)
        e3 == upd(inner, Pl(Add(F.a, B.gb), -q.gpo - t), 3, eb)
    IN upd(e3, Pl(Add(F.gb, B.gb), -(IF eb = lenb THEN q.tgpe ELSE q.gpe) - t), 6, eb)

(* boundary states handed to the two sub-rectangles (aln_continue) *)
LeftB0(tr) == IF tr \in {1, 2, 3} THEN St(0, NEG, NEG) ELSE IF tr = 5 THEN St(NEG, 0, NEG) ELSE St(NEG, NEG, 0)
RightF0(tr) == IF tr \in {1, 5, 7} THEN St(0, NEG, NEG) ELSE IF tr = 2 THEN St(NEG, 0, NEG) ELSE St(NEG, NEG, 0)

(* the recursion: splits in the order the serial controller makes them, and the path cells they fix *)
RECURSIVE Rec(_, _, _, _, _, _, _)
Rec(q, a, b, r, f0, b0, mode) ==
    IF Degenerate(r) THEN [cells |-> {}, splits |-> <<>>]
    ELSE LET mid == Mid(r)
             f == Forward(q, a, b, r[1], mid, r[3], r[4], f0)
             bk == Backward(q, a, b, mid, r[2], r[3], r[4], b0)
             mt == Meetup(q, f, bk, r[3], r[4], Len(b), mode)
             this == [sa |-> r[1], ea |-> r[2], sb |-> r[3], eb |-> r[4], mid |-> mid, meet |-> mt.c, tr |-> mt.tr, score |-> mt.max]
         IN IF mt.tr \notin Trans THEN [cells |-> {}, splits |-> <<this>>]
            ELSE LET ch == Children(r, mt.c, mt.tr)
                     L == Rec(q, a, b, ch[1], f0, LeftB0(mt.tr), mode)
                     R == Rec(q, a, b, ch[2], RightF0(mt.tr), b0, mode)
                 IN [cells |-> Cells(r, mt.c, mt.tr) \cup L.cells \cup R.cells, splits |-> <<this>> \o L.splits \o R.splits]

Run(par, a, b, mode) == Rec(Scale(par), a, b, <<0, Len(a), 0, Len(b)>>, St(0, NEG, NEG), St(0, NEG, NEG), mode)

(* path[] -> alignment codes (aln_setup.c add_gap_info_to_path_n): 0 both, 1 a column of b only, 2 a row of a only *)
Codes(n, m, cells) ==
    LET colOf(i) == IF \E c \in cells : c[1] = i THEN (CHOOSE c \in cells : c[1] = i)[2] ELSE -1
        step(acc, i) ==
            LET c == colOf(i)
            IN IF c = -1 THEN [acc EXCEPT !.p = Append(@, 2)]
               ELSE [p |-> acc.p \o [k \in 1..(c - acc.last - 1) |-> 1] \o <<0>>, last |-> c]
        r == FoldLeft(step, [p |-> <<>>, last |-> 0], [i \in 1..n |-> i])
    IN r.p \o [k \in 1..(m - r.last) |-> 1]

(* each row has at most one cell, columns increase with the rows *)
WellFormedCells(n, m, cells) ==
    /\ \A c \in cells : c[1] \in 1..n /\ c[2] \in 1..m
    /\ \A c, d \in cells : (c[1] = d[1] => c = d) /\ (c[1] < d[1] => c[2] < d[2])

Align(par, a, b, mode) == Codes(Len(a), Len(b), Run(par, a, b, mode).cells)
=============================================================================
