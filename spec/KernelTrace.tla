---------------------------- MODULE KernelTrace ----------------------------
(***************************************************************************)
(* Every split the Hirschberg recursion makes while aligning two single     *)
(* sequences is re-derived from Kernel: for the logged rectangle, with the  *)
(* boundary states its parent's transition prescribes, the model's forward  *)
(* pass, backward pass and meetup must choose the logged column and         *)
(* transition.  The walk follows the code's choices, so one divergence does *)
(* not cascade.  At the end the cells fixed by the splits must render to    *)
(* the rows kalign returned (path -> alignment, mirroring).                 *)
(*   Case    a, b (ASCII), ka, kb      (only ka = kb = 1 is examined)       *)
(*   Sorted  ranks: canonical order; rows of the DP = second in that order  *)
(*   Params  subm, gpo, gpe, tgpe, biotype                                  *)
(*   HSplit  sa, ea, sb, eb, mid, meet, tr                                  *)
(*   Obj out rows                                                           *)
(* Float: with parameters that are multiples of 0.5 and scores below 4096   *)
(* the integer model is exact; otherwise a differing choice counts only if  *)
(* the model's decision margin exceeds Tol (0.1 score units).               *)
(* A mismatch is a model divergence (diagnostic), not a property verdict.   *)
(***************************************************************************)
EXTENDS Kernel, Alphabet, Json, IOUtils
Trace == ndJsonDeserialize(IOEnv.TRACE)
VARIABLES l, cs, par, bnd, cells, viol
vars == <<l, cs, par, bnd, cells, viol>>
Ev == Trace[l]
Is(e) == l <= Len(Trace) /\ Trace[l].e = e
Init == l = 1 /\ cs = [k |-> "none", id |-> "none"] /\ par = [k |-> "none"] /\ bnd = <<>> /\ cells = {} /\ viol = {}
Report(v) == viol' = v /\ IF v # {} THEN PrintT(<<"KVDIV", l, cs.id, v>>) ELSE TRUE
Put(f, k, v) == [x \in (DOMAIN f) \cup {k} |-> IF x = k THEN v ELSE f[x]]
Tol == 200
ExactPar(q) == q.gpo % 5 = 0 /\ q.gpe % 5 = 0 /\ q.tgpe % 5 = 0 /\ \A k \in 1..Len(q.subm) : q.subm[k] % 5 = 0
MaxAbs(q) == LET m == FoldLeft(LAMBDA acc, x : IF Abs(x) > acc THEN Abs(x) ELSE acc, 0, q.subm)
             IN Mx3(m, q.gpo, q.tgpe)

TCase == /\ Is("Case") /\ l' = l + 1
         /\ cs' = [k |-> "case", id |-> Ev.id, a |-> Ev.a, b |-> Ev.b, ka |-> Ev.ka, kb |-> Ev.kb, rows |-> 0]
         /\ par' = [k |-> "none"] /\ bnd' = <<>> /\ cells' = {} /\ viol' = {}
(* canonical order (length descending, name ascending): the merge of two sequences takes the second one as rows *)
TSorted == /\ Is("Sorted") /\ cs.k = "case" /\ l' = l + 1
           /\ cs' = IF Len(Ev.ranks) = 2 THEN [cs EXCEPT !.rows = Ev.ranks[2] + 1] ELSE cs
           /\ UNCHANGED <<par, bnd, cells>> /\ viol' = {}
Usable == cs.k = "case" /\ cs.ka = 1 /\ cs.kb = 1 /\ cs.rows \in {1, 2} /\ par.k = "ok"
RowSeq == LET alpha == IF par.biotype = 1 THEN A_DNA ELSE A_PROT23
              s == IF cs.rows = 1 THEN cs.a ELSE cs.b
          IN [k \in 1..Len(s) |-> Code(alpha, s[k])]
ColSeq == LET alpha == IF par.biotype = 1 THEN A_DNA ELSE A_PROT23
              s == IF cs.rows = 1 THEN cs.b ELSE cs.a
          IN [k \in 1..Len(s) |-> Code(alpha, s[k])]
Small == (Len(cs.a) + Len(cs.b)) * MaxAbs(par) < 2000000
TParams == /\ Is("Params") /\ l' = l + 1
           /\ par' = [k |-> "ok", subm |-> Ev.subm, gpo |-> Ev.gpo, gpe |-> Ev.gpe, tgpe |-> Ev.tgpe, biotype |-> Ev.biotype]
           /\ bnd' = IF cs.k = "case" /\ cs.ka = 1 /\ cs.kb = 1 /\ cs.rows \in {1, 2}
                     THEN LET n == IF cs.rows = 1 THEN Len(cs.a) ELSE Len(cs.b)
                              m == IF cs.rows = 1 THEN Len(cs.b) ELSE Len(cs.a)
                          IN Put(<<>>, <<0, n, 0, m>>, <<St(0, NEG, NEG), St(0, NEG, NEG)>>)
                     ELSE <<>>
           /\ UNCHANGED <<cs, cells>> /\ viol' = {}

THSplit ==
    /\ Is("HSplit") /\ l' = l + 1 /\ UNCHANGED <<cs, par>>
    /\ IF ~(Usable /\ Small) THEN UNCHANGED <<bnd, cells>> /\ viol' = {}
       ELSE LET r == <<Ev.sa, Ev.ea, Ev.sb, Ev.eb>>
            IN IF r \notin DOMAIN bnd
               THEN UNCHANGED <<bnd, cells>> /\ Report({"Kernel.split-of-a-rectangle-no-parent-prescribes"})
               ELSE LET q == Scale(par)
                        a == RowSeq
                        b == ColSeq
                        mid == Mid(r)
                        f == Forward(q, a, b, r[1], mid, r[3], r[4], bnd[r][1])
                        bk == Backward(q, a, b, mid, r[2], r[3], r[4], bnd[r][2])
                        mt == Meetup(q, f, bk, r[3], r[4], Len(b), "fixed")
                        same == mt.c = Ev.meet /\ mt.tr = Ev.tr
                        close == mt.max - mt.second <= Tol /\ ~(ExactPar(par) /\ (Len(a) + Len(b)) * MaxAbs(par) < 40000)
                        okc == Ev.tr \in Trans /\ Allowed(r, Ev.meet, Ev.tr)
                        ch == Children(r, Ev.meet, Ev.tr)
                    IN /\ bnd' = IF okc THEN Put(Put(bnd, ch[1], <<bnd[r][1], LeftB0(Ev.tr)>>), ch[2], <<RightF0(Ev.tr), bnd[r][2]>>) ELSE bnd
                       /\ cells' = IF okc THEN cells \cup Cells(r, Ev.meet, Ev.tr) ELSE cells
                       /\ IF same
                          THEN \* the same choice: the score of the split must be the model's too (exact parameters only)
                               IF "sc" \in DOMAIN Ev /\ ExactPar(par) /\ (Len(a) + Len(b)) * MaxAbs(par) < 40000 /\ Ev.sc # mt.max
                               THEN PrintT(<<"KVINFO", l, cs.id, r, "score code", Ev.sc, "model", mt.max>>) /\ Report({"Kernel.score-of-the-split-differs-from-the-model"})
                               ELSE viol' = {}
                          ELSE IF close THEN PrintT(<<"KVNOTE", l, cs.id, "too-close-to-call-in-float">>) /\ viol' = {}
                          ELSE /\ PrintT(<<"KVINFO", l, cs.id, r, "code", Ev.meet, Ev.tr, "model", mt.c, mt.tr, "margin", mt.max - mt.second>>)
                               /\ Report({"Kernel.meet-or-transition-differs-from-the-model"})

Dash == 45
PathOf(ra, rb) ==
    [k \in 1..Len(ra) |-> IF ra[k] # Dash /\ rb[k] # Dash THEN 0 ELSE IF ra[k] = Dash /\ rb[k] # Dash THEN 1 ELSE IF ra[k] # Dash THEN 2 ELSE 3]
TOut ==
    /\ Is("Obj") /\ Ev.tag = "out" /\ cs.k = "case"
    /\ l' = l + 1 /\ cs' = [cs EXCEPT !.k = "used"] /\ UNCHANGED <<par, bnd, cells>>
    /\ IF ~(Usable /\ Small) \/ Ev.null = 1 \/ Ev.final # 1 \/ Ev.rows # 1 \/ Len(Ev.seqs) # 2
       THEN PrintT(<<"KVSKIP", l, cs.id, "not-a-small-pair">>) /\ viol' = {}
       ELSE LET n == Len(RowSeq)
                m == Len(ColSeq)
                rr == Ev.seqs[cs.rows]
                rc == Ev.seqs[3 - cs.rows]
            IN Report((IF ~WellFormedCells(n, m, cells) THEN {"Kernel.cells-not-well-formed"} ELSE {})
                      \cup (IF WellFormedCells(n, m, cells) /\ Codes(n, m, cells) # PathOf(rr, rc) THEN {"Kernel.rows-differ-from-the-rendered-path"} ELSE {}))

TOther ==
    /\ l <= Len(Trace)
    /\ ~(Ev.e \in {"Case", "Params", "HSplit"} \/ (Ev.e = "Sorted" /\ cs.k = "case") \/ (Ev.e = "Obj" /\ Ev.tag = "out" /\ cs.k = "case"))
    /\ l' = l + 1 /\ UNCHANGED <<cs, par, bnd, cells>> /\ viol' = {}
Next == TCase \/ TSorted \/ TParams \/ THSplit \/ TOut \/ TOther
Spec == Init /\ [][Next]_vars
Accepted == TLCGet("stats").diameter - 1 = Len(Trace)
=============================================================================
