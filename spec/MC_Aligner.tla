----------------------------- MODULE MC_Aligner -----------------------------
(* End-to-end properties of the composed model (Aligner!AlignAll), exhaustively for N short sequences:
   C01  every row without its dashes is the input sequence; all rows have one length; no column is all dashes
   C08  copies of one sequence are returned without any dash
   C12  equal input sequences get equal rows, provided no other sequence contains or is contained in them
   C10  (through the paths) every merge is a valid path over its two operands
   Twin: UPGMA that joins the LAST minimal pair instead of the first is not needed here; the twin perturbs the distance of
   equal sequences (as if the length term were counted twice for the second copy), which separates copies in the tree. *)
EXTENDS Aligner
CONSTANTS N, MaxLen, Letters, ParIdx, Variant
VARIABLES seqs
vars == <<seqs>>
Mat(match, mis) == [k \in 1..529 |-> IF (k - 1) \div 23 = (k - 1) % 23 THEN match ELSE mis]
Pars == << [subm |-> Mat(50, -40), gpo |-> 80, gpe |-> 60, tgpe |-> 0],
           [subm |-> Mat(50, -40), gpo |-> 80, gpe |-> 60, tgpe |-> 80],
           [subm |-> Mat(100, -900), gpo |-> 10, gpe |-> 5, tgpe |-> 60] >>
Q == LET par == Pars[ParIdx] IN [subm |-> [k \in 1..Len(par.subm) |-> par.subm[k] * K], gpo |-> par.gpo * K, gpe |-> par.gpe * K, tgpe |-> par.tgpe * K]
Words == UNION {[1..k -> Letters] : k \in 1..MaxLen}
Init == seqs \in [1..N -> Words]
Next == UNCHANGED vars
Spec == Init /\ [][Next]_vars

Res == AlignAllV(Q, seqs, [i \in 1..N |-> i], Variant)
Integrity ==
    LET rows == Res.rows
    IN /\ \A i \in 1..N : WV!StripDash(rows[i]) = seqs[i]
       /\ \A i, j \in 1..N : Len(rows[i]) = Len(rows[j])
       /\ WV!AllGapCols(rows) = {}
CopiesFlat == (\A i \in 1..N : seqs[i] = seqs[1]) => \A i \in 1..N : Res.rows[i] = seqs[1]
HasSub(s, t) == \E k \in 0..(Len(s) - Len(t)) : SubSeq(s, k + 1, k + Len(t)) = t
DupPremise(i) == \A x \in 1..N : seqs[x] # seqs[i] => ~HasSub(seqs[x], seqs[i]) /\ ~HasSub(seqs[i], seqs[x])
DuplicatesEqualRows == \A i, j \in 1..N : (seqs[i] = seqs[j] /\ DupPremise(i)) => Res.rows[i] = Res.rows[j]
=============================================================================
