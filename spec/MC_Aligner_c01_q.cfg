CONSTANTS N = 3 MaxLen = 3 Letters = {0, 1} ParIdx = 1 Variant = "ok"
SPECIFICATION Spec
INVARIANT Integrity
CHECK_DEADLOCK FALSE
