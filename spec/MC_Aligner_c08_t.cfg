CONSTANTS N = 4 MaxLen = 2 Letters = {0, 1} ParIdx = 3 Variant = "ok"
SPECIFICATION Spec
INVARIANT CopiesFlat
CHECK_DEADLOCK FALSE
