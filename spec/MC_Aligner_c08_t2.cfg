CONSTANTS N = 3 MaxLen = 4 Letters = {0, 1} ParIdx = 2 Variant = "ok"
SPECIFICATION Spec
INVARIANT CopiesFlat
CHECK_DEADLOCK FALSE
