CONSTANTS N = 3 MaxLen = 3 Letters = {0, 1} ParIdx = 1 Variant = "ok"
SPECIFICATION Spec
INVARIANT Integrity
INVARIANT CopiesFlat
INVARIANT DuplicatesEqualRows
CHECK_DEADLOCK FALSE
