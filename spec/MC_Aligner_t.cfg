CONSTANTS N = 4 MaxLen = 2 Letters = {0, 1} ParIdx = 3 Variant = "ok"
SPECIFICATION Spec
INVARIANT Integrity
INVARIANT CopiesFlat
INVARIANT DuplicatesEqualRows
CHECK_DEADLOCK FALSE
