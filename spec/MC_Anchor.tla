----------------------------- MODULE MC_Anchor -----------------------------
(* Anchor on all small inputs.
   (a) anchors: for every descending length vector of up to MaxN sequences with lengths 1..MaxLen and every order in which a
       sort without "equal" may leave the ties, the anchors are distinct sequences, their lengths are the ones AnchorLens
       prescribes and do not increase, the first anchor is a longest sequence, and with pairwise different lengths the anchors
       are exactly Exact - so the anchor LENGTHS (and with distinct lengths the anchors) are a function of the multiset of
       lengths, whatever the order of the input was (C03).
   (b) 2-means: for every data set of P points in {0..MaxV}^Dim, every sample list that is a permutation of a subset, and every
       seed: Lloyd ends within the 500 rounds of the code, returns two non-empty parts that partition the samples and keep their
       order, and - unless it ended in the fallback - a fixed point (no member is strictly nearer to the other mean).
       In exact arithmetic the fallback is in fact never taken (FallbackUnreachable): the mean of the samples lies between the two
       centres, and ties are dealt out alternately; the code reaches it only through float32 effects (or NaN).
       Twin (MC_Anchor_twin.cfg: every tie goes left and an empty cluster is returned as it is): Partition fails. *)
EXTENDS Anchor
CONSTANTS Cap, MaxN, MaxLen, P, Dim, MaxV, Variant
VARIABLES mode, lens, perm, X, idx, seed
vars == <<mode, lens, perm, X, idx, seed>>
DescVectors == UNION {{v \in [1..n -> 1..MaxLen] : IsDesc(v)} : n \in 1..MaxN}
Points == [1..Dim -> 0..MaxV]
SampleLists == UNION {{s \in [1..k -> 1..P] : \A i, j \in 1..k : i # j => s[i] # s[j]} : k \in 2..P}
Init == \/ /\ mode = "anchors" /\ lens \in DescVectors /\ perm \in SortOutcomes(lens)
           /\ X = <<>> /\ idx = <<>> /\ seed = 0
        \/ /\ mode = "kmeans" /\ lens = <<>> /\ perm = <<>>
           /\ X \in [1..P -> Points] /\ idx \in SampleLists /\ seed \in 0..(Len(idx) - 1)
Next == UNCHANGED vars
Spec == Init /\ [][Next]_vars

AnchorsOk ==
    mode = "anchors" =>
        LET a == AnchorsOf(Cap, lens, perm) al == AnchorLens(Cap, lens)
        IN /\ WellFormed(Cap, lens, a)
           /\ IsDesc(al)
           /\ al[1] = lens[1]
           /\ (AllDistinct(lens) => a = Exact(Cap, lens))
           /\ (Len(lens) <= Cap => ToSet(a) = 0..(Len(lens) - 1))       \* up to Cap sequences: every sequence is an anchor
Res == IF Variant = "nofallback"
       THEN LET a == Assign(X, idx, X[idx[seed + 1]], 1, [j \in 1..Dim |-> 2 * SumOf(X, idx)[j] - Len(idx) * X[idx[seed + 1]][j]], Len(idx))
            IN [l |-> a.l, r |-> a.r, degenerate |-> FALSE, rounds |-> 1]
       ELSE Lloyd(X, idx, seed)
KmeansOk ==
    mode = "kmeans" =>
        LET res == Res
        IN /\ Partition(idx, res.l, res.r)
           /\ IsSubSeqOf(res.l, idx) /\ IsSubSeqOf(res.r, idx)
           /\ res.rounds < 500
           /\ (Variant = "ok" /\ ~res.degenerate => FixedPoint(X, res.l, res.r) /\ Misplaced(X, res.l, res.r) = {})
FallbackUnreachable == (mode = "kmeans" /\ Variant = "ok") => ~Res.degenerate
TieLeft == "left"
=============================================================================
