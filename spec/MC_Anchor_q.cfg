CONSTANTS Cap = 3  MaxN = 7  MaxLen = 3  P = 3  Dim = 2  MaxV = 3  Variant = "ok"
SPECIFICATION Spec
INVARIANT AnchorsOk
INVARIANT KmeansOk
INVARIANT FallbackUnreachable
CHECK_DEADLOCK FALSE
