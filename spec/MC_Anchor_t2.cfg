CONSTANTS Cap = 4  MaxN = 9  MaxLen = 3  P = 3  Dim = 3  MaxV = 2  Variant = "ok"
SPECIFICATION Spec
INVARIANT AnchorsOk
INVARIANT KmeansOk
INVARIANT FallbackUnreachable
CHECK_DEADLOCK FALSE
