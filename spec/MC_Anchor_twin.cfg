CONSTANTS Cap = 3  MaxN = 2  MaxLen = 1  P = 3  Dim = 2  MaxV = 1  Variant = "nofallback"
CONSTANT TieRule <- TieLeft
SPECIFICATION Spec
INVARIANT KmeansOk
CHECK_DEADLOCK FALSE
