------------------------------- MODULE MC_Api -------------------------------
EXTENDS Api
H2 == {0, 1}
I2 == {"dna", "prot"}
P2 == {"default", "explicit"}
F2 == {"fasta", "clu"}
(* mixing nucleotide and protein inputs in one object is refused by kalign: not a well-formed history *)
NoMix == \A h \in Handles : Cardinality({content[h][k].i : k \in {j \in 1..Len(content[h]) : content[h][j].op = "read"}}) <= 1
=============================================================================
