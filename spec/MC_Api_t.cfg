CONSTANTS Handles <- H2  Inputs <- I2  ParSets <- P2  Formats <- F2  MaxCalls = 4
SPECIFICATION Spec
CONSTRAINT NoMix
INVARIANTS TypeOK ChainsAreLocal Emit
CHECK_DEADLOCK FALSE
