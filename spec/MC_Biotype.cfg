CONSTANTS MaxTotal = 9  ExcludeKnown = TRUE
SPECIFICATION Spec
INVARIANT RuleMeetsRequirement
CHECK_DEADLOCK FALSE
