----------------------------- MODULE MC_Biotype -----------------------------
(* Where does a histogram rule (CodeRule) meet the requirement?  Compositions are class-count vectors:
   s shared letters (A,C,G,T,N), u U's, q protein-only letters (E,F,I,L,P,Q), r letters the code lists as protein only
   but which are IUPAC nucleotide codes (D,H,K,M,R,S,V,W,Y), o other letters (B,J,O,X,Z).
   Known region: U counts for nucleotide so strongly that a protein with many U's is called nucleotide. *)
EXTENDS Biotype, Integers
CONSTANTS MaxTotal, ExcludeKnown
VARIABLES s, u, q, r, o
vars == <<s, u, q, r, o>>
Init == /\ s \in 0..MaxTotal /\ u \in 0..MaxTotal /\ q \in 0..MaxTotal /\ r \in 0..MaxTotal /\ o \in 0..MaxTotal
        /\ s + u + q + r + o \in 1..MaxTotal
Next == UNCHANGED vars
Spec == Init /\ [][Next]_vars
Rep(n, c) == [i \in 1..n |-> c]
Comp == Rep(s, Chr.A) \o Rep(u, Chr.U) \o Rep(q, Chr.E) \o Rep(r, Chr.D) \o Rep(o, Chr.X)
KnownRegion == u > 0 /\ 4 * q >= s + u + q + r + o
RuleMeetsRequirement ==
    LET want == Requirement(<<Comp>>)
        got == CodeRule(Comp)
    IN (ExcludeKnown /\ KnownRegion) \/ want = UNDECIDED \/ got = want
=============================================================================
