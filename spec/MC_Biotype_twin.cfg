CONSTANTS MaxTotal = 9  ExcludeKnown = FALSE
SPECIFICATION Spec
INVARIANT RuleMeetsRequirement
CHECK_DEADLOCK FALSE
