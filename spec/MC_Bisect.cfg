CONSTANTS N = 7 T = 3 Variant = "ok"
SPECIFICATION Spec
INVARIANT Conservation
INVARIANT NoEmptyNode
INVARIANT Bounded
PROPERTY Terminates
CHECK_DEADLOCK FALSE
