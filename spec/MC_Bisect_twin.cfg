CONSTANTS N = 5 T = 3 Variant = "onesided"
SPECIFICATION Spec
PROPERTY Terminates
CONSTRAINT Small
CHECK_DEADLOCK FALSE
