------------------------------- MODULE MC_Cli -------------------------------
EXTENDS Cli
VARIABLE v
Init == v \in Vectors
Next == UNCHANGED v
Spec == Init /\ [][Next]_v
Emit == PrintT(ToJson(v))

=============================================================================
