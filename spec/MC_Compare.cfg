CONSTANTS MaxLen = 3
SPECIFICATION Spec
INVARIANT Lemmas
CHECK_DEADLOCK FALSE
