----------------------------- MODULE MC_Compare -----------------------------
(* lemmas of Compare over all pairs of alignments of two or three short sequences *)
EXTENDS Compare
CONSTANTS MaxLen
VARIABLES R, T
vars == <<R, T>>
RECURSIVE Paths(_, _)
Paths(la, lb) ==
    IF la = 0 /\ lb = 0 THEN {<<>>}
    ELSE (IF la > 0 /\ lb > 0 THEN {<<0>> \o p : p \in Paths(la - 1, lb - 1)} ELSE {})
         \cup (IF lb > 0 THEN {<<1>> \o p : p \in Paths(la, lb - 1)} ELSE {})
         \cup (IF la > 0 THEN {<<2>> \o p : p \in Paths(la - 1, lb)} ELSE {})
Res(s, n) == [i \in 1..n |-> 64 + 10 * s + i]
RowA(p, n) == LET g == GapVec(p, "a", n) IN Render(Res(1, n), g)
RowB(p, n) == LET g == GapVec(p, "b", n) IN Render(Res(2, n), g)
(* a third row: a fixed sequence placed flush left, padded with dashes *)
Row3(w) == [k \in 1..w |-> IF k = 1 THEN 99 ELSE Dash]
Aln(p, la, lb, three, swap) ==
    LET ra == RowA(p, la)
        rb == RowB(p, lb)
        rows == IF three THEN <<ra, rb, Row3(Len(p))>> ELSE <<ra, rb>>
        names == IF three THEN <<<<1>>, <<2>>, <<3>>>> ELSE <<<<1>>, <<2>>>>
    IN IF swap THEN [names |-> <<names[2], names[1]>> \o SubSeq(names, 3, Len(names)), rows |-> <<rows[2], rows[1]>> \o SubSeq(rows, 3, Len(rows))]
       ELSE [names |-> names, rows |-> rows]
Init == \E la, lb \in 1..MaxLen : \E p, q \in Paths(la, lb) : \E three, swap \in BOOLEAN :
            /\ R = Aln(p, la, lb, three, FALSE)
            /\ T = Aln(q, la, lb, three, swap)
Next == UNCHANGED vars
Spec == Init /\ [][Next]_vars
AddGapCol(A) == [A EXCEPT !.rows = [i \in 1..Len(A.rows) |-> <<Dash>> \o A.rows[i] \o <<Dash>>]]
Lemmas ==
    /\ Comparable(R, T)
    /\ Score1e4(R, T) \in 0..1000000
    /\ Equivalent(R, T) => Score1e4(R, T) = 1000000
    /\ Score1e4(R, R) = 1000000
    /\ Score1e4(R, AddGapCol(R)) = 1000000
    /\ Score1e4(R, AddGapCol(T)) = Score1e4(R, T)
=============================================================================
