CONSTANTS MaxLen = 2
SPECIFICATION Spec
INVARIANT Lemmas
CHECK_DEADLOCK FALSE
