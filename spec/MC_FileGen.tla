----------------------------- MODULE MC_FileGen -----------------------------
EXTENDS FileGen
AllKinds == {"name1", "name2", "noname", "res", "res2", "gapped", "prot", "blank", "spaces", "punct", "high", "ctrl", "odd", "digits", "one",
             "cluhdr", "msfhdr", "msfline", "msfname", "msfname2", "nolen", "sep", "row1", "row2", "row3", "rowonly", "longname"}
FastaKinds == {"name1", "name2", "noname", "res", "gapped", "prot", "blank", "punct", "high", "ctrl", "odd", "one", "longname"}
BlockKinds == {"cluhdr", "msfhdr", "msfname", "msfname2", "nolen", "sep", "row1", "row2", "row3", "rowonly", "blank", "high"}
=============================================================================
