CONSTANTS Kinds <- AllKinds  MaxLines = 2
SPECIFICATION Spec
INVARIANT Emit
CHECK_DEADLOCK FALSE
