CONSTANTS Kinds <- AllKinds  MaxLines = 3
SPECIFICATION Spec
INVARIANT Emit
CHECK_DEADLOCK FALSE
