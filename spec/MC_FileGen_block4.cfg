CONSTANTS Kinds <- BlockKinds  MaxLines = 4
SPECIFICATION Spec
INVARIANT Emit
CHECK_DEADLOCK FALSE
