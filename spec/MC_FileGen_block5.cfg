CONSTANTS Kinds <- BlockKinds  MaxLines = 5
SPECIFICATION Spec
INVARIANT Emit
CHECK_DEADLOCK FALSE
