CONSTANTS Kinds <- FastaKinds  MaxLines = 4
SPECIFICATION Spec
INVARIANT Emit
CHECK_DEADLOCK FALSE
