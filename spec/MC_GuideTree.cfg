CONSTANTS N = 5  Variant = "ok"
SPECIFICATION Spec
INVARIANT CopiesFormAClade
CHECK_DEADLOCK FALSE
