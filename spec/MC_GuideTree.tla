---------------------------- MODULE MC_GuideTree ----------------------------
(* C12 at design level: if the copies of a duplicated sequence are mutually at the smallest distance (edit distance 0, only
   the length term), have identical distance rows, and every other sequence is at edit distance >= 1 from them, then
   whatever the other distances and wherever the copies stand in the canonical order, UPGMA (first strict minimum,
   average + 0.001) builds a subtree whose leaves are exactly the copies.  Twin: with "<=" instead of "<" in the scan and an
   epsilon larger than the separation the lemma can fail (Variant = "bigeps"). *)
EXTENDS GuideTree
CONSTANTS N, Variant
VARIABLES dup, D
vars == <<dup, D>>
Pairs == {<<i, j>> \in (1..N) \X (1..N) : i < j}
Small == 40                                  \* length term of the copies (length 40)
Large == {10040, 10047, 13040, 20040}        \* edit distance >= 1, various length terms
Init ==
    /\ dup \in {S \in SUBSET (1..N) : Cardinality(S) \in {2, 3}}
    /\ D \in [Pairs -> Large \cup {Small}]
    /\ \A p \in Pairs : (D[p] = Small) <=> (p[1] \in dup /\ p[2] \in dup)
    /\ \A i, j \in dup : \A x \in (1..N) \ dup : D[Key(i, x)] = D[Key(j, x)]     \* identical sequences have identical rows
Next == UNCHANGED vars
Spec == Init /\ [][Next]_vars
Eps0 == IF Variant = "bigeps" THEN 20000 ELSE 10
CopiesFormAClade == dup \in Clades(N, D, Eps0)
=============================================================================
