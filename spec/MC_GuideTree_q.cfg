CONSTANTS N = 4  Variant = "ok"
SPECIFICATION Spec
INVARIANT CopiesFormAClade
CHECK_DEADLOCK FALSE
