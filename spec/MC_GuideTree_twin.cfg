CONSTANTS N = 5  Variant = "bigeps"
SPECIFICATION Spec
INVARIANT CopiesFormAClade
CHECK_DEADLOCK FALSE
