CONSTANTS N = 4  Variant = "bigeps"
SPECIFICATION Spec
INVARIANT CopiesFormAClade
CHECK_DEADLOCK FALSE
