--------------------------- MODULE MC_Hirschberg ---------------------------
(* every choice of (meet, transition) the meetup may return, at every level: the recursion terminates, sub-rectangles stay
   inside their parent and shrink, no path row is written twice, and the written cells form a strictly increasing map
   (a valid alignment path).  Variant "wrongbound" is the broken twin: case 1 recurses on meet instead of meet - 1. *)
EXTENDS Hirschberg
CONSTANTS N, M, Variant
VARIABLES stack, cells, steps
vars == <<stack, cells, steps>>
Init == stack = << <<0, N, 0, M>> >> /\ cells = {} /\ steps = 0
Kids(r, meet, tr) ==
    IF Variant = "wrongbound" /\ tr = 1
    THEN << <<r[1], Mid(r) - 1, r[3], meet>>, <<Mid(r) + 1, r[2], meet + 1, r[4]>> >>
    ELSE Children(r, meet, tr)
Leaf == /\ stack # <<>> /\ Degenerate(stack[Len(stack)])
        /\ stack' = SubSeq(stack, 1, Len(stack) - 1) /\ UNCHANGED <<cells, steps>>
Split(meet, tr) ==
    /\ stack # <<>>
    /\ LET r == stack[Len(stack)]
       IN /\ ~Degenerate(r)
          /\ Allowed(r, meet, tr)
          /\ LET k == Kids(r, meet, tr)
             IN stack' = SubSeq(stack, 1, Len(stack) - 1) \o <<k[2], k[1]>>    \* first child on top
          /\ cells' = cells \cup Cells(r, meet, tr)
          /\ steps' = steps + 1
Next == Leaf \/ \E meet \in 0..M, tr \in Trans : Split(meet, tr)
Spec == Init /\ [][Next]_vars
Inside(c, r) == Degenerate(c) \/ (c[1] >= r[1] /\ c[2] <= r[2] /\ c[3] >= r[3] /\ c[4] <= r[4])
RowsOnce == \A x, y \in cells : x[1] = y[1] => x = y
Monotone == \A x, y \in cells : x[1] < y[1] => x[2] < y[2]
InRange == \A x \in cells : x[1] \in 1..N /\ x[2] \in 1..M
Bounded == steps <= N + 1
StackOk == \A i \in 1..Len(stack) : Degenerate(stack[i]) \/ (stack[i][1] >= 0 /\ stack[i][2] <= N /\ stack[i][3] >= 0 /\ stack[i][4] <= M)
(* pending rectangles are pairwise disjoint in rows, and ordered: the top of the stack is leftmost *)
Disjoint == \A i, j \in 1..Len(stack) : (i < j /\ ~Degenerate(stack[i]) /\ ~Degenerate(stack[j])) => stack[j][2] <= stack[i][1] /\ stack[j][4] <= stack[i][3]
=============================================================================
