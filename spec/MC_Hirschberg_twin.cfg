CONSTANTS N = 4  M = 4  Variant = "wrongbound"
SPECIFICATION Spec
INVARIANTS RowsOnce Monotone InRange Bounded StackOk Disjoint
CHECK_DEADLOCK FALSE
