------------------------------ MODULE MC_Kernel ------------------------------
(* C07 on the model, exhaustively for small sequences: whenever some alignment of (a, b) is the certified unique
   optimum (Scoring!UniqueOptimum), the recursion of Kernel returns exactly that alignment; and the returned cells
   always form a well-formed alignment whose two kinds of gap run are never adjacent (C01 side).
   The twin (Mode = "pinned": the meetup rule before the repair 24dd196) must be rejected. *)
EXTENDS Kernel
CONSTANTS MinLen, MaxLen, Letters, ParSet, Mode
VARIABLES a, b, par
vars == <<a, b, par>>
S == INSTANCE Scoring
Mat(match, mis) == [k \in 1..529 |-> IF (k - 1) \div 23 = (k - 1) % 23 THEN match ELSE mis]
Pars == << [subm |-> Mat(50, -40), gpo |-> 80, gpe |-> 60, tgpe |-> 0],
           [subm |-> Mat(50, -40), gpo |-> 80, gpe |-> 60, tgpe |-> 80],
           [subm |-> Mat(100, -900), gpo |-> 10, gpe |-> 5, tgpe |-> 60],
           [subm |-> Mat(100, -900), gpo |-> 10, gpe |-> 20, tgpe |-> 0],
           [subm |-> Mat(40, -10), gpo |-> 55, gpe |-> 20, tgpe |-> 10] >>
Words == UNION {[1..k -> Letters] : k \in MinLen..MaxLen}
RECURSIVE Paths(_, _)
Paths(la, lb) ==
    IF la = 0 /\ lb = 0 THEN {<<>>}
    ELSE (IF la > 0 /\ lb > 0 THEN {<<0>> \o p : p \in Paths(la - 1, lb - 1)} ELSE {})
         \cup (IF lb > 0 THEN {<<1>> \o p : p \in Paths(la, lb - 1)} ELSE {})
         \cup (IF la > 0 THEN {<<2>> \o p : p \in Paths(la - 1, lb)} ELSE {})
Init == a \in Words /\ b \in Words /\ Len(a) <= Len(b) /\ par \in {Pars[k] : k \in ParSet}
Next == UNCHANGED vars
Spec == Init /\ [][Next]_vars

Result == Run(par, a, b, Mode)
Shape ==
    LET R == Result
        p == Codes(Len(a), Len(b), R.cells)
    IN /\ WellFormedCells(Len(a), Len(b), R.cells)
       /\ \A k \in 1..Len(R.splits) : R.splits[k].tr \in Trans /\ Allowed(<<R.splits[k].sa, R.splits[k].ea, R.splits[k].sb, R.splits[k].eb>>, R.splits[k].meet, R.splits[k].tr)
       /\ S!ValidAln(a, b, p)
       /\ S!Allowed(p)

Slack == (Len(a) + Len(b)) \div 100 + 2
CertifiedOptimumReturned ==
    LET p == Codes(Len(a), Len(b), Result.cells)
        best == S!BestHi(par, a, b)
        cand == {c \in Paths(Len(a), Len(b)) : S!Allowed(c) /\ S!ScoreOf(par, a, b, c, "hi") = best}
    IN \A c \in cand : S!UniqueOptimum(par, a, b, c, Slack) => c = p
(* exploration only (stronger than C07 asks): the returned alignment, at its best, reaches the best alignment at its worst *)
WithinInterval ==
    LET p == Codes(Len(a), Len(b), Result.cells)
        ps == {c \in Paths(Len(a), Len(b)) : S!Allowed(c)}
        bestlo == CHOOSE x \in {S!ScoreOf(par, a, b, c, "lo") : c \in ps} : \A c \in ps : S!ScoreOf(par, a, b, c, "lo") <= x
    IN S!ScoreOf(par, a, b, p, "hi") + Slack >= bestlo
=============================================================================
