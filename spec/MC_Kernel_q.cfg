CONSTANTS MinLen = 1 MaxLen = 4 Letters = {0, 1} ParSet = {1, 2, 3, 5} Mode = "fixed"
SPECIFICATION Spec
INVARIANT Shape
INVARIANT CertifiedOptimumReturned
CHECK_DEADLOCK FALSE
