CONSTANTS MinLen = 1 MaxLen = 4 Letters = {0, 1, 2} ParSet = {3, 1} Mode = "fixed"
SPECIFICATION Spec
INVARIANT Shape
INVARIANT CertifiedOptimumReturned
CHECK_DEADLOCK FALSE
