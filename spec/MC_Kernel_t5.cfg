CONSTANTS MinLen = 5 MaxLen = 5 Letters = {0, 1, 2} ParSet = {3} Mode = "fixed"
SPECIFICATION Spec
INVARIANT Shape
INVARIANT CertifiedOptimumReturned
CHECK_DEADLOCK FALSE
