CONSTANTS MinLen = 1 MaxLen = 5 Letters = {0, 1} ParSet = {1, 2, 3, 4, 5} Mode = "fixed"
SPECIFICATION Spec
INVARIANT WithinInterval
CHECK_DEADLOCK FALSE
