------------------------------ MODULE MC_Myers ------------------------------
(* every text over Sigma up to MaxN symbols and every pattern not longer than the text: the blocked algorithm
   with word width W and cap Cap returns the semi-global edit distance to the first Cap pattern symbols *)
EXTENDS Myers
CONSTANTS W, Cap, MaxN, Sigma, PadVariant
VARIABLES t, p
vars == <<t, p>>
Words(n) == UNION {[1..k -> Sigma] : k \in 0..n}
Init == t \in Words(MaxN) /\ p \in Words(MaxN) /\ Len(p) <= Len(t) /\ Len(p) >= 1
Next == UNCHANGED vars
Spec == Init /\ [][Next]_vars
Correct == BlockV(t, p, W, Cap, PadVariant) = SemiGlobal(t, Prefix(p, Cap))
=============================================================================
