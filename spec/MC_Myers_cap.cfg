CONSTANTS W = 2  Cap = 4  MaxN = 6  Sigma = {0, 1}  PadVariant = "ok"
SPECIFICATION Spec
INVARIANT Correct
CHECK_DEADLOCK FALSE
