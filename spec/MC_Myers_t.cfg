CONSTANTS W = 4  Cap = 9  MaxN = 5  Sigma = {0, 1, 2}  PadVariant = "ok"
SPECIFICATION Spec
INVARIANT Correct
CHECK_DEADLOCK FALSE
