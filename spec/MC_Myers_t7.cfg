CONSTANTS W = 3  Cap = 7  MaxN = 7  Sigma = {0, 1}  PadVariant = "ok"
SPECIFICATION Spec
INVARIANT Correct
CHECK_DEADLOCK FALSE
