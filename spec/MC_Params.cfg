SPECIFICATION Spec
INVARIANT Lemmas
CHECK_DEADLOCK FALSE
