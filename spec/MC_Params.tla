----------------------------- MODULE MC_Params -----------------------------
EXTENDS Params, TLC
VARIABLE x
Init == x = 0
Next == x < 1 /\ x' = x + 1
Spec == Init /\ [][Next]_x
Lemmas == ExplicitDefaultIsDefault /\ EachSettableAlone /\ RejectIffMismatch /\ MatricesSymmetric
=============================================================================
