---------------------------- MODULE MC_Progressive ----------------------------
(* The generalised kernel on the model, exhaustively for small inputs:
   - with a sequence x sequence context it is Kernel (same cells, same splits);
   - copies of one sequence are merged without gaps, whatever the group sizes (C08 on the model);
   - when a planted alignment of (a, b) is the certified unique optimum, the merge of a group of ka copies of a with a
     group of kb copies of b returns it: profile x sequence and profile x profile kernels (C07 on the model). *)
EXTENDS Profile
CONSTANTS MinLen, MaxLen, Letters, ParSet, Copies, Mode
VARIABLES a, b, ka, kb, par
vars == <<a, b, ka, kb, par>>
S0 == INSTANCE Scoring
K0 == INSTANCE Kernel
Mat(match, mis) == [k \in 1..529 |-> IF (k - 1) \div 23 = (k - 1) % 23 THEN match ELSE mis]
Pars == << [subm |-> Mat(50, -40), gpo |-> 80, gpe |-> 60, tgpe |-> 0],
           [subm |-> Mat(50, -40), gpo |-> 80, gpe |-> 60, tgpe |-> 80],
           [subm |-> Mat(100, -900), gpo |-> 10, gpe |-> 5, tgpe |-> 60],
           [subm |-> Mat(40, -10), gpo |-> 55, gpe |-> 20, tgpe |-> 10] >>
Words == UNION {[1..k -> Letters] : k \in MinLen..MaxLen}
RECURSIVE Paths(_, _)
Paths(la, lb) ==
    IF la = 0 /\ lb = 0 THEN {<<>>}
    ELSE (IF la > 0 /\ lb > 0 THEN {<<0>> \o p : p \in Paths(la - 1, lb - 1)} ELSE {})
         \cup (IF lb > 0 THEN {<<1>> \o p : p \in Paths(la, lb - 1)} ELSE {})
         \cup (IF la > 0 THEN {<<2>> \o p : p \in Paths(la - 1, lb)} ELSE {})
Init == a \in Words /\ b \in Words /\ ka \in Copies /\ kb \in Copies /\ par \in {Pars[k] : k \in ParSet}
Next == UNCHANGED vars
Spec == Init /\ [][Next]_vars

Q == [subm |-> [k \in 1..Len(par.subm) |-> par.subm[k] * K], gpo |-> par.gpo * K, gpe |-> par.gpe * K, tgpe |-> par.tgpe * K]
(* twin: the gap penalty of the sequence side of a profile x sequence merge is not multiplied by the size of the profile *)
Ctx(A, B) == LET c == Context(Q, A, B)
             IN IF Mode = "twin" /\ c.kind = 1 THEN [c EXCEPT !.gac = [o |-> Q.gpo, e |-> Q.gpe, t |-> Q.tgpe]] ELSE c
MergeNodes(A, B) == LET R == Run(Ctx(A, B)) IN [p |-> PathAB(A, B, R.cells), node |-> Joined(Q, A, B, PathAB(A, B, R.cells))]
(* a group of k copies, built as the progressive aligner builds it: one copy joined at a time *)
RECURSIVE Group(_, _)
Group(s, k) == IF k = 1 THEN [node |-> Leaf(Q, s), flat |-> TRUE]
               ELSE LET g == Group(s, k - 1)
                        mm == MergeNodes(g.node, Leaf(Q, s))
                    IN [node |-> mm.node, flat |-> g.flat /\ \A i \in 1..Len(mm.p) : mm.p[i] = 0]

SameAsKernel ==
    Len(a) <= Len(b) =>
        LET g == Run(CxSeqSeq(Q, a, b))
            k == K0!Run(par, a, b, "fixed")
        IN g.cells = k.cells /\ [i \in 1..Len(g.splits) |-> <<g.splits[i].meet, g.splits[i].tr, g.splits[i].score>>]
                               = [i \in 1..Len(k.splits) |-> <<k.splits[i].meet, k.splits[i].tr, k.splits[i].score>>]
CopiesMergeFlat == Group(a, ka).flat /\ Group(b, kb).flat

Slack == (Len(a) + Len(b)) \div 100 + 2
ScaledPar == [subm |-> [k \in 1..Len(par.subm) |-> par.subm[k] * ka * kb], gpo |-> par.gpo * ka * kb, gpe |-> par.gpe * ka * kb, tgpe |-> par.tgpe * ka * kb]
GroupCertifiedOptimumReturned ==
    LET A == Group(a, ka).node
        B == Group(b, kb).node
        p == MergeNodes(A, B).p
        best == S0!BestHi(ScaledPar, a, b)
        cand == {c \in Paths(Len(a), Len(b)) : S0!Allowed(c) /\ S0!ScoreOf(ScaledPar, a, b, c, "hi") = best}
    IN /\ S0!ValidAln(a, b, p)
       /\ \A c \in cand : S0!UniqueOptimum(ScaledPar, a, b, c, Slack * ka * kb) => c = p
=============================================================================
