CONSTANTS MinLen = 1 MaxLen = 3 Letters = {0, 1} ParSet = {1, 3} Copies = {1, 2} Mode = "ok"
SPECIFICATION Spec
INVARIANT SameAsKernel
INVARIANT CopiesMergeFlat
INVARIANT GroupCertifiedOptimumReturned
CHECK_DEADLOCK FALSE
