CONSTANTS MinLen = 1 MaxLen = 4 Letters = {0, 1} ParSet = {1, 2, 3, 4} Copies = {1, 2, 3} Mode = "ok"
SPECIFICATION Spec
INVARIANT SameAsKernel
INVARIANT CopiesMergeFlat
INVARIANT GroupCertifiedOptimumReturned
CHECK_DEADLOCK FALSE
