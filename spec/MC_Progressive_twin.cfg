CONSTANTS MinLen = 2 MaxLen = 4 Letters = {0, 1} ParSet = {1, 3} Copies = {1, 3} Mode = "twin"
SPECIFICATION Spec
INVARIANT GroupCertifiedOptimumReturned
CHECK_DEADLOCK FALSE
