---------------------------- MODULE MC_RoundTrip ----------------------------
(* design-level C06 / C15: for every small alignment A, what Reader reads back from the lines Writer prints is A (all three
   formats, block width 3 so that widths below, at and above one and two blocks occur), and the printed lines satisfy the
   layout requirement.  Names are taken from a set that includes a prefix pair and the punctuation characters allowed in names. *)
EXTENDS Writer, TLC
Rd == INSTANCE Reader
Wv == INSTANCE Weave
CONSTANTS MaxW, BW
VARIABLES names, rows
vars == <<names, rows>>
NameSet == { <<97>>, <<97, 98>>, <<97, 95, 98>>, <<120, 46, 124, 45>>, <<83, 51>> }
Cells == {65, 99, 45}      \* A, c, -
Init == /\ \E w \in 1..MaxW : rows \in [1..2 -> [1..w -> Cells]]
        /\ names \in [1..2 -> NameSet] /\ names[1] # names[2]
        /\ \A i \in 1..2 : \E k \in 1..Len(rows[i]) : rows[i][k] # 45            \* no empty sequence
        /\ \A k \in 1..Len(rows[1]) : ~(rows[1][k] = 45 /\ rows[2][k] = 45)       \* no all-gap column
        /\ \E i \in 1..2 : \E k \in 1..Len(rows[i]) : rows[i][k] = 45             \* at least one gap (else not an alignment file)
Next == UNCHANGED vars
Spec == Init /\ [][Next]_vars
Back(lines) ==
    LET o == Rd!Outcome(lines)
    IN o.k = "ok" /\ o.names = names /\ Len(o.seqs) = 2
       /\ \A i \in 1..2 : Len(o.gaps[i]) = Len(o.seqs[i]) + 1 /\ Wv!Render(o.seqs[i], o.gaps[i]) = rows[i]
RoundTrip ==
    /\ Back(FastaLines(names, rows, BW))
    /\ Back(CluLines(names, rows, BW))
    /\ Back(MsfLines(names, rows, 1, BW))
    /\ Back(MsfLines(names, rows, 0, BW))
=============================================================================
