CONSTANTS MaxW = 3  BW = 3
SPECIFICATION Spec
INVARIANT RoundTrip
CHECK_DEADLOCK FALSE
