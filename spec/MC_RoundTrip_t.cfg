CONSTANTS MaxW = 4  BW = 3
SPECIFICATION Spec
INVARIANT RoundTrip
CHECK_DEADLOCK FALSE
