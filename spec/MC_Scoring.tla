----------------------------- MODULE MC_Scoring -----------------------------
(* the fold-based dynamic programmes of Scoring agree with brute force over all alignments of tiny sequences:
   best Hi score, every through-score, and hence BestOffPath / UniqueOptimum *)
EXTENDS Scoring
CONSTANTS MaxLen, ParSet
VARIABLES a, b, par
vars == <<a, b, par>>
Mat(match, mis) == [k \in 1..529 |-> IF (k - 1) \div 23 = (k - 1) % 23 THEN match ELSE mis]
Pars == << [subm |-> Mat(50, -40), gpo |-> 80, gpe |-> 60, tgpe |-> 0],
           [subm |-> Mat(50, -40), gpo |-> 80, gpe |-> 60, tgpe |-> 80],
           [subm |-> Mat(40, -10), gpo |-> 55, gpe |-> 20, tgpe |-> 10],
           [subm |-> Mat(30, 10), gpo |-> 5, gpe |-> 0, tgpe |-> 3],
           [subm |-> Mat(3830, 1600), gpo |-> 2170, gpe |-> 394, tgpe |-> 2926] >>
Words == UNION {[1..k -> {0, 1}] : k \in 1..MaxLen}
RECURSIVE Paths(_, _)
Paths(la, lb) ==
    IF la = 0 /\ lb = 0 THEN {<<>>}
    ELSE (IF la > 0 /\ lb > 0 THEN {<<0>> \o p : p \in Paths(la - 1, lb - 1)} ELSE {})
         \cup (IF lb > 0 THEN {<<1>> \o p : p \in Paths(la, lb - 1)} ELSE {})
         \cup (IF la > 0 THEN {<<2>> \o p : p \in Paths(la - 1, lb)} ELSE {})
Init == a \in Words /\ b \in Words /\ par \in {Pars[k] : k \in ParSet}
Next == UNCHANGED vars
Spec == Init /\ [][Next]_vars
MaxOf(S) == IF S = {} THEN NEG ELSE CHOOSE x \in S : \A y \in S : y <= x
Agree ==
    LET n == Len(a)
        m == Len(b)
        ps == {p \in Paths(n, m) : Allowed(p)}
        F == Forward(par, a, b)
        R == Forward(par, Rev(a), Rev(b))
        brute(cs) == MaxOf({ScoreOf(par, a, b, p, "hi") : p \in {q \in ps : cs \in Visited(q)}})
    IN /\ BestHi(par, a, b) = MaxOf({ScoreOf(par, a, b, p, "hi") : p \in ps})
       /\ \A i \in 0..n, j \in 0..m, s \in {"m", "a", "b"} :
            LET t == Through(F, R, par, a, b, i, j, s)
                w == brute(<<i, j, s>>)
            IN (IF t <= NEG \div 2 THEN NEG ELSE t) = w
       /\ \A p \in ps : BestOffPath(par, a, b, p) = MaxOf({ScoreOf(par, a, b, q, "hi") : q \in ps \ {p}})
       /\ \A p \in ps : ScoreOf(par, a, b, p, "lo") <= ScoreOf(par, a, b, p, "hi")
=============================================================================
