CONSTANTS MaxLen = 3  ParSet = {1, 3}
SPECIFICATION Spec
INVARIANT Agree
CHECK_DEADLOCK FALSE
