CONSTANTS MaxLen = 4  ParSet = {1, 2, 3, 4, 5}
SPECIFICATION Spec
INVARIANT Agree
CHECK_DEADLOCK FALSE
