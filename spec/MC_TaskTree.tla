---------------------------- MODULE MC_TaskTree ----------------------------
(***************************************************************************)
(* Instances of TaskTree for the three fork/join islands of kalign.         *)
(*  merge tree   recursive_aln(c): task(child a); task(child b); taskwait;  *)
(*               do_align(c) reads both children, writes c                  *)
(*  hirschberg   aln_runner: task(forward); task(backward); taskwait;       *)
(*               meetup reads both                                          *)
(*  k-means      4 restarts as tasks; taskwait; reduce in index order;      *)
(*               then task(left); task(right); taskwait                     *)
(* "NW" programs are the broken twins: the same program without taskwait.   *)
(***************************************************************************)
EXTENDS TaskTree

S(c) == <<"spawn", c>>
R(c) == <<"read", c>>
W == <<"wait">>
Wr == <<"write">>

\* merge of two finished internal nodes
Join(a, b) == <<S(a), S(b), W, R(a), R(b), Wr>>
JoinNW(a, b) == <<S(a), S(b), R(a), R(b), Wr>>
Join1(a) == <<S(a), W, R(a), Wr>>
Leafm == <<Wr>>

\* balanced tree over 8 leaves: 7 merge tasks
Bal8 == [t \in 1..7 |-> CASE t = 1 -> Join(2, 3) [] t = 2 -> Join(4, 5) [] t = 3 -> Join(6, 7) [] OTHER -> Leafm]
Bal8NW == [Bal8 EXCEPT ![2] = JoinNW(4, 5)]
\* caterpillar: each merge has one internal child
Cat5 == [t \in 1..5 |-> IF t < 5 THEN Join1(t + 1) ELSE Leafm]
\* mixed: root joins a caterpillar and a cherry
Mix6 == [t \in 1..6 |-> CASE t = 1 -> Join(2, 3) [] t = 2 -> Join1(4) [] t = 4 -> Join1(5) [] t = 3 -> Join1(6) [] OTHER -> Leafm]

\* a merge whose alignment runs one parallel Hirschberg step (tasks 4 = forward, 5 = backward), children 2, 3 likewise (6,7 / 8,9)
HStep(f, b) == <<S(f), S(b), W, R(f), R(b)>>
HStepNW(f, b) == <<S(f), S(b), R(f), R(b)>>
Hirsch == [t \in 1..9 |-> CASE t = 1 -> <<S(2), S(3), W, R(2), R(3)>> \o HStep(4, 5) \o <<Wr>>
                            [] t = 2 -> HStep(6, 7) \o <<Wr>>
                            [] t = 3 -> HStep(8, 9) \o <<Wr>>
                            [] OTHER -> Leafm]
HirschNW == [Hirsch EXCEPT ![1] = <<S(2), S(3), W, R(2), R(3)>> \o HStepNW(4, 5) \o <<Wr>>]

\* bisecting k-means node 1: restarts 2..5, children 6 (with restarts 8..11 and UPGMA leaves 12, 13) and 7 (UPGMA leaf)
Restarts(a, b, c, d) == <<S(a), S(b), S(c), S(d), W, R(a), R(b), R(c), R(d)>>
RestartsNW(a, b, c, d) == <<S(a), S(b), S(c), S(d), R(a), R(b), R(c), R(d)>>
Kmeans == [t \in 1..13 |-> CASE t = 1 -> Restarts(2, 3, 4, 5) \o <<S(6), S(7), W, R(6), R(7), Wr>>
                             [] t = 6 -> Restarts(8, 9, 10, 11) \o <<S(12), S(13), W, R(12), R(13), Wr>>
                             [] OTHER -> Leafm]
KmeansNW1 == [Kmeans EXCEPT ![6] = RestartsNW(8, 9, 10, 11) \o <<S(12), S(13), W, R(12), R(13), Wr>>]
KmeansNW2 == [Kmeans EXCEPT ![1] = Restarts(2, 3, 4, 5) \o <<S(6), S(7), R(6), R(7), Wr>>]
T5 == 1..5
T6 == 1..6
T7 == 1..7
T9 == 1..9
T13 == 1..13
=============================================================================
