---- MODULE MC_TaskTree_TTrace_1790553659 ----
EXTENDS Sequences, TLCExt, MC_TaskTree, Toolbox, Naturals, TLC

_expression ==
    LET MC_TaskTree_TEExpression == INSTANCE MC_TaskTree_TEExpression
    IN MC_TaskTree_TEExpression!expression
----

_trace ==
    LET MC_TaskTree_TETrace == INSTANCE MC_TaskTree_TETrace
    IN MC_TaskTree_TETrace!trace
----

_inv ==
    ~(
        TLCGet("level") = Len(_TETrace)
        /\
        acc = (<<<<<<2, <<>>>>>>, <<>>, <<>>, <<>>, <<>>, <<>>, <<>>, <<>>, <<>>, <<>>, <<>>, <<>>, <<>>>>)
        /\
        stack = (<<<<1>>, <<>>>>)
        /\
        pc = (<<7, 2, 2, 2, 2, 1, 1, 1, 1, 1, 1, 1, 1>>)
        /\
        out = (<<<<>>, <<2, <<>>>>, <<3, <<>>>>, <<4, <<>>>>, <<5, <<>>>>, <<>>, <<>>, <<>>, <<>>, <<>>, <<>>, <<>>, <<>>>>)
        /\
        status = (<<"active", "done", "done", "done", "done", "new", "new", "new", "new", "new", "new", "new", "new">>)
    )
----

_init ==
    /\ out = _TETrace[1].out
    /\ pc = _TETrace[1].pc
    /\ acc = _TETrace[1].acc
    /\ status = _TETrace[1].status
    /\ stack = _TETrace[1].stack
----

_next ==
    /\ \E i,j \in DOMAIN _TETrace:
        /\ \/ /\ j = i + 1
              /\ i = TLCGet("level")
        /\ out  = _TETrace[i].out
        /\ out' = _TETrace[j].out
        /\ pc  = _TETrace[i].pc
        /\ pc' = _TETrace[j].pc
        /\ acc  = _TETrace[i].acc
        /\ acc' = _TETrace[j].acc
        /\ status  = _TETrace[i].status
        /\ status' = _TETrace[j].status
        /\ stack  = _TETrace[i].stack
        /\ stack' = _TETrace[j].stack

\* Uncomment the ASSUME below to write the states of the error trace
\* to the given file in Json format. Note that you can pass any tuple
\* to `JsonSerialize`. For example, a sub-sequence of _TETrace.
    \* ASSUME
    \*     LET J == INSTANCE Json
    \*         IN J!JsonSerialize("MC_TaskTree_TTrace_1790553659.json", _TETrace)

=============================================================================

 Note that you can extract this module `MC_TaskTree_TEExpression`
  to a dedicated file to reuse `expression` (the module in the 
  dedicated `MC_TaskTree_TEExpression.tla` file takes precedence 
  over the module `MC_TaskTree_TEExpression` below).

---- MODULE MC_TaskTree_TEExpression ----
EXTENDS Sequences, TLCExt, MC_TaskTree, Toolbox, Naturals, TLC

expression == 
    [
        \* To hide variables of the `MC_TaskTree` spec from the error trace,
        \* remove the variables below.  The trace will be written in the order
        \* of the fields of this record.
        out |-> out
        ,pc |-> pc
        ,acc |-> acc
        ,status |-> status
        ,stack |-> stack
        
        \* Put additional constant-, state-, and action-level expressions here:
        \* ,_stateNumber |-> _TEPosition
        \* ,_outUnchanged |-> out = out'
        
        \* Format the `out` variable as Json value.
        \* ,_outJson |->
        \*     LET J == INSTANCE Json
        \*     IN J!ToJson(out)
        
        \* Lastly, you may build expressions over arbitrary sets of states by
        \* leveraging the _TETrace operator.  For example, this is how to
        \* count the number of times a spec variable changed up to the current
        \* state in the trace.
        \* ,_outModCount |->
        \*     LET F[s \in DOMAIN _TETrace] ==
        \*         IF s = 1 THEN 0
        \*         ELSE IF _TETrace[s].out # _TETrace[s-1].out
        \*             THEN 1 + F[s-1] ELSE F[s-1]
        \*     IN F[_TEPosition - 1]
    ]

=============================================================================



Parsing and semantic processing can take forever if the trace below is long.
 In this case, it is advised to uncomment the module below to deserialize the
 trace from a generated binary file.

\*
\*---- MODULE MC_TaskTree_TETrace ----
\*EXTENDS IOUtils, MC_TaskTree, TLC
\*
\*trace == IODeserialize("MC_TaskTree_TTrace_1790553659.bin", TRUE)
\*
\*=============================================================================
\*

---- MODULE MC_TaskTree_TETrace ----
EXTENDS MC_TaskTree, TLC

trace == 
    <<
    ([acc |-> <<<<>>, <<>>, <<>>, <<>>, <<>>, <<>>, <<>>, <<>>, <<>>, <<>>, <<>>, <<>>, <<>>>>,stack |-> <<<<1>>, <<>>>>,pc |-> <<1, 1, 1, 1, 1, 1, 1, 1, 1, 1, 1, 1, 1>>,out |-> <<<<>>, <<>>, <<>>, <<>>, <<>>, <<>>, <<>>, <<>>, <<>>, <<>>, <<>>, <<>>, <<>>>>,status |-> <<"active", "new", "new", "new", "new", "new", "new", "new", "new", "new", "new", "new", "new">>]),
    ([acc |-> <<<<>>, <<>>, <<>>, <<>>, <<>>, <<>>, <<>>, <<>>, <<>>, <<>>, <<>>, <<>>, <<>>>>,stack |-> <<<<1, 2>>, <<>>>>,pc |-> <<2, 1, 1, 1, 1, 1, 1, 1, 1, 1, 1, 1, 1>>,out |-> <<<<>>, <<>>, <<>>, <<>>, <<>>, <<>>, <<>>, <<>>, <<>>, <<>>, <<>>, <<>>, <<>>>>,status |-> <<"active", "active", "new", "new", "new", "new", "new", "new", "new", "new", "new", "new", "new">>]),
    ([acc |-> <<<<>>, <<>>, <<>>, <<>>, <<>>, <<>>, <<>>, <<>>, <<>>, <<>>, <<>>, <<>>, <<>>>>,stack |-> <<<<1, 2>>, <<>>>>,pc |-> <<2, 2, 1, 1, 1, 1, 1, 1, 1, 1, 1, 1, 1>>,out |-> <<<<>>, <<2, <<>>>>, <<>>, <<>>, <<>>, <<>>, <<>>, <<>>, <<>>, <<>>, <<>>, <<>>, <<>>>>,status |-> <<"active", "active", "new", "new", "new", "new", "new", "new", "new", "new", "new", "new", "new">>]),
    ([acc |-> <<<<>>, <<>>, <<>>, <<>>, <<>>, <<>>, <<>>, <<>>, <<>>, <<>>, <<>>, <<>>, <<>>>>,stack |-> <<<<1>>, <<>>>>,pc |-> <<2, 2, 1, 1, 1, 1, 1, 1, 1, 1, 1, 1, 1>>,out |-> <<<<>>, <<2, <<>>>>, <<>>, <<>>, <<>>, <<>>, <<>>, <<>>, <<>>, <<>>, <<>>, <<>>, <<>>>>,status |-> <<"active", "done", "new", "new", "new", "new", "new", "new", "new", "new", "new", "new", "new">>]),
    ([acc |-> <<<<>>, <<>>, <<>>, <<>>, <<>>, <<>>, <<>>, <<>>, <<>>, <<>>, <<>>, <<>>, <<>>>>,stack |-> <<<<1, 3>>, <<>>>>,pc |-> <<3, 2, 1, 1, 1, 1, 1, 1, 1, 1, 1, 1, 1>>,out |-> <<<<>>, <<2, <<>>>>, <<>>, <<>>, <<>>, <<>>, <<>>, <<>>, <<>>, <<>>, <<>>, <<>>, <<>>>>,status |-> <<"active", "done", "active", "new", "new", "new", "new", "new", "new", "new", "new", "new", "new">>]),
    ([acc |-> <<<<>>, <<>>, <<>>, <<>>, <<>>, <<>>, <<>>, <<>>, <<>>, <<>>, <<>>, <<>>, <<>>>>,stack |-> <<<<1, 3>>, <<>>>>,pc |-> <<3, 2, 2, 1, 1, 1, 1, 1, 1, 1, 1, 1, 1>>,out |-> <<<<>>, <<2, <<>>>>, <<3, <<>>>>, <<>>, <<>>, <<>>, <<>>, <<>>, <<>>, <<>>, <<>>, <<>>, <<>>>>,status |-> <<"active", "done", "active", "new", "new", "new", "new", "new", "new", "new", "new", "new", "new">>]),
    ([acc |-> <<<<>>, <<>>, <<>>, <<>>, <<>>, <<>>, <<>>, <<>>, <<>>, <<>>, <<>>, <<>>, <<>>>>,stack |-> <<<<1>>, <<>>>>,pc |-> <<3, 2, 2, 1, 1, 1, 1, 1, 1, 1, 1, 1, 1>>,out |-> <<<<>>, <<2, <<>>>>, <<3, <<>>>>, <<>>, <<>>, <<>>, <<>>, <<>>, <<>>, <<>>, <<>>, <<>>, <<>>>>,status |-> <<"active", "done", "done", "new", "new", "new", "new", "new", "new", "new", "new", "new", "new">>]),
    ([acc |-> <<<<>>, <<>>, <<>>, <<>>, <<>>, <<>>, <<>>, <<>>, <<>>, <<>>, <<>>, <<>>, <<>>>>,stack |-> <<<<1, 4>>, <<>>>>,pc |-> <<4, 2, 2, 1, 1, 1, 1, 1, 1, 1, 1, 1, 1>>,out |-> <<<<>>, <<2, <<>>>>, <<3, <<>>>>, <<>>, <<>>, <<>>, <<>>, <<>>, <<>>, <<>>, <<>>, <<>>, <<>>>>,status |-> <<"active", "done", "done", "active", "new", "new", "new", "new", "new", "new", "new", "new", "new">>]),
    ([acc |-> <<<<>>, <<>>, <<>>, <<>>, <<>>, <<>>, <<>>, <<>>, <<>>, <<>>, <<>>, <<>>, <<>>>>,stack |-> <<<<1, 4>>, <<>>>>,pc |-> <<4, 2, 2, 2, 1, 1, 1, 1, 1, 1, 1, 1, 1>>,out |-> <<<<>>, <<2, <<>>>>, <<3, <<>>>>, <<4, <<>>>>, <<>>, <<>>, <<>>, <<>>, <<>>, <<>>, <<>>, <<>>, <<>>>>,status |-> <<"active", "done", "done", "active", "new", "new", "new", "new", "new", "new", "new", "new", "new">>]),
    ([acc |-> <<<<>>, <<>>, <<>>, <<>>, <<>>, <<>>, <<>>, <<>>, <<>>, <<>>, <<>>, <<>>, <<>>>>,stack |-> <<<<1>>, <<>>>>,pc |-> <<4, 2, 2, 2, 1, 1, 1, 1, 1, 1, 1, 1, 1>>,out |-> <<<<>>, <<2, <<>>>>, <<3, <<>>>>, <<4, <<>>>>, <<>>, <<>>, <<>>, <<>>, <<>>, <<>>, <<>>, <<>>, <<>>>>,status |-> <<"active", "done", "done", "done", "new", "new", "new", "new", "new", "new", "new", "new", "new">>]),
    ([acc |-> <<<<>>, <<>>, <<>>, <<>>, <<>>, <<>>, <<>>, <<>>, <<>>, <<>>, <<>>, <<>>, <<>>>>,stack |-> <<<<1, 5>>, <<>>>>,pc |-> <<5, 2, 2, 2, 1, 1, 1, 1, 1, 1, 1, 1, 1>>,out |-> <<<<>>, <<2, <<>>>>, <<3, <<>>>>, <<4, <<>>>>, <<>>, <<>>, <<>>, <<>>, <<>>, <<>>, <<>>, <<>>, <<>>>>,status |-> <<"active", "done", "done", "done", "active", "new", "new", "new", "new", "new", "new", "new", "new">>]),
    ([acc |-> <<<<>>, <<>>, <<>>, <<>>, <<>>, <<>>, <<>>, <<>>, <<>>, <<>>, <<>>, <<>>, <<>>>>,stack |-> <<<<1, 5>>, <<>>>>,pc |-> <<5, 2, 2, 2, 2, 1, 1, 1, 1, 1, 1, 1, 1>>,out |-> <<<<>>, <<2, <<>>>>, <<3, <<>>>>, <<4, <<>>>>, <<5, <<>>>>, <<>>, <<>>, <<>>, <<>>, <<>>, <<>>, <<>>, <<>>>>,status |-> <<"active", "done", "done", "done", "active", "new", "new", "new", "new", "new", "new", "new", "new">>]),
    ([acc |-> <<<<>>, <<>>, <<>>, <<>>, <<>>, <<>>, <<>>, <<>>, <<>>, <<>>, <<>>, <<>>, <<>>>>,stack |-> <<<<1>>, <<>>>>,pc |-> <<5, 2, 2, 2, 2, 1, 1, 1, 1, 1, 1, 1, 1>>,out |-> <<<<>>, <<2, <<>>>>, <<3, <<>>>>, <<4, <<>>>>, <<5, <<>>>>, <<>>, <<>>, <<>>, <<>>, <<>>, <<>>, <<>>, <<>>>>,status |-> <<"active", "done", "done", "done", "done", "new", "new", "new", "new", "new", "new", "new", "new">>]),
    ([acc |-> <<<<>>, <<>>, <<>>, <<>>, <<>>, <<>>, <<>>, <<>>, <<>>, <<>>, <<>>, <<>>, <<>>>>,stack |-> <<<<1>>, <<>>>>,pc |-> <<6, 2, 2, 2, 2, 1, 1, 1, 1, 1, 1, 1, 1>>,out |-> <<<<>>, <<2, <<>>>>, <<3, <<>>>>, <<4, <<>>>>, <<5, <<>>>>, <<>>, <<>>, <<>>, <<>>, <<>>, <<>>, <<>>, <<>>>>,status |-> <<"active", "done", "done", "done", "done", "new", "new", "new", "new", "new", "new", "new", "new">>]),
    ([acc |-> <<<<<<2, <<>>>>>>, <<>>, <<>>, <<>>, <<>>, <<>>, <<>>, <<>>, <<>>, <<>>, <<>>, <<>>, <<>>>>,stack |-> <<<<1>>, <<>>>>,pc |-> <<7, 2, 2, 2, 2, 1, 1, 1, 1, 1, 1, 1, 1>>,out |-> <<<<>>, <<2, <<>>>>, <<3, <<>>>>, <<4, <<>>>>, <<5, <<>>>>, <<>>, <<>>, <<>>, <<>>, <<>>, <<>>, <<>>, <<>>>>,status |-> <<"active", "done", "done", "done", "done", "new", "new", "new", "new", "new", "new", "new", "new">>])
    >>
----


=============================================================================

---- CONFIG MC_TaskTree_TTrace_1790553659 ----
CONSTANTS
    Root = 1
    NThreads = 2
    Tasks <- T13
    Prog <- KmeansNW2

INVARIANT
    _inv

CHECK_DEADLOCK
    \* CHECK_DEADLOCK off because of PROPERTY or INVARIANT above.
    FALSE

INIT
    _init

NEXT
    _next

CONSTANT
    _TETrace <- _trace

ALIAS
    _expression
=============================================================================
\* Generated on Mon Sep 28 00:01:01 UTC 2026