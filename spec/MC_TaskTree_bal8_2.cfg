CONSTANTS
  Root = 1
  NThreads = 2
  Tasks <- T7
  Prog <- Bal8
SPECIFICATION FairSpec
INVARIANTS TypeOK NoEarlyRead NoPoison Determinate Progress
CHECK_DEADLOCK FALSE
PROPERTY Termination
