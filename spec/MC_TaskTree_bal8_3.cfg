CONSTANTS
  Root = 1
  NThreads = 3
  Tasks <- T7
  Prog <- Bal8
SPECIFICATION Spec
INVARIANTS TypeOK NoEarlyRead NoPoison Determinate Progress
CHECK_DEADLOCK FALSE

