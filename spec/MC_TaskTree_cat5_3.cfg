CONSTANTS
  Root = 1
  NThreads = 3
  Tasks <- T5
  Prog <- Cat5
SPECIFICATION FairSpec
INVARIANTS TypeOK NoEarlyRead NoPoison Determinate Progress
CHECK_DEADLOCK FALSE
PROPERTY Termination
