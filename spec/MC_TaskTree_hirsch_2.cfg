CONSTANTS
  Root = 1
  NThreads = 2
  Tasks <- T9
  Prog <- Hirsch
SPECIFICATION Spec
INVARIANTS TypeOK NoEarlyRead NoPoison Determinate Progress
CHECK_DEADLOCK FALSE

