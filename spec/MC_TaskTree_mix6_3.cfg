CONSTANTS
  Root = 1
  NThreads = 3
  Tasks <- T6
  Prog <- Mix6
SPECIFICATION Spec
INVARIANTS TypeOK NoEarlyRead NoPoison Determinate Progress
CHECK_DEADLOCK FALSE

