CONSTANTS
  Root = 1
  NThreads = 2
  Tasks <- T7
  Prog <- Bal8NW
SPECIFICATION Spec
INVARIANTS TypeOK NoEarlyRead NoPoison Determinate Progress
CHECK_DEADLOCK FALSE

