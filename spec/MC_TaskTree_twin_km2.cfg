CONSTANTS
  Root = 1
  NThreads = 2
  Tasks <- T13
  Prog <- KmeansNW2
SPECIFICATION Spec
INVARIANTS TypeOK NoEarlyRead NoPoison Determinate Progress
CHECK_DEADLOCK FALSE

