------------------------------ MODULE MC_Weave ------------------------------
(***************************************************************************)
(* Exhaustive model of progressive merging: every tree shape over N leaves, *)
(* every assignment of lengths 1..MaxLen, every valid path at every merge.  *)
(* Shows that, whatever the dynamic programming returns, if it is a valid   *)
(* path then integrity (C01) and projection stability (C10) hold.           *)
(* Variant = "offbyone" is the broken twin: TLC must find a violation.      *)
(***************************************************************************)
EXTENDS Weave

CONSTANTS N, MaxLen, Variant

VARIABLES lens, gaps, members, plen, done, consumed, snap, next, final, prevPairs

vars == <<lens, gaps, members, plen, done, consumed, snap, next, final, prevPairs>>

Leaves == 1..N
Nodes == 1..(2 * N - 1)

Res(s) == [i \in 1..lens[s] |-> 100 * s + i]

RECURSIVE Paths(_, _)
Paths(la, lb) ==
    IF la = 0 /\ lb = 0 THEN {<<>>}
    ELSE (IF la > 0 /\ lb > 0 THEN {<<0>> \o p : p \in Paths(la - 1, lb - 1)} ELSE {})
         \cup (IF lb > 0 THEN {<<1>> \o p : p \in Paths(la, lb - 1)} ELSE {})
         \cup (IF la > 0 THEN {<<2>> \o p : p \in Paths(la - 1, lb)} ELSE {})

RangeOf(s) == {s[i] : i \in 1..Len(s)}

RowsOf(c, g) == [i \in 1..Len(members[c]) |-> Render(Res(members[c][i]), g[members[c][i]])]

(* pairs of residues <<s, i, t, j>> that share a column in some live group *)
PairsOf(mem, pl, live, g) ==
    UNION { LET rows == [i \in 1..Len(mem[c]) |-> Render(Res(mem[c][i]), g[mem[c][i]])]
                idx == [i \in 1..Len(rows) |-> ResidueIndex(rows[i])]
            IN { <<mem[c][t[1]], idx[t[1]][t[3]], mem[c][t[2]], idx[t[2]][t[3]]>> :
                    t \in { u \in (1..Len(rows)) \X (1..Len(rows)) \X (1..pl[c]) :
                                u[1] < u[2] /\ idx[u[1]][u[3]] > 0 /\ idx[u[2]][u[3]] > 0 } }
          : c \in live }

Init ==
    /\ lens \in [Leaves -> 1..MaxLen]
    /\ gaps = [s \in Leaves |-> [i \in 1..(lens[s] + 1) |-> 0]]
    /\ members = [c \in Nodes |-> IF c <= N THEN <<c>> ELSE <<>>]
    /\ plen = [c \in Nodes |-> IF c <= N THEN lens[c] ELSE 0]
    /\ done = Leaves
    /\ consumed = {}
    /\ snap = [c \in Nodes |-> IF c <= N THEN <<Res(c)>> ELSE <<>>]
    /\ next = N + 1
    /\ final = FALSE
    /\ prevPairs = {}

Merge(a, b, p) ==
    /\ ~final
    /\ a \in done \ consumed
    /\ b \in done \ consumed
    /\ a # b
    /\ ValidPath(p, plen[a], plen[b])
    /\ LET c == next
           va == GapVec(p, "a", plen[a])
           vb == GapVec(p, "b", plen[b])
           g2 == [s \in Leaves |->
                    IF s \in RangeOf(members[a]) THEN UpdateGapsV(gaps[s], va, Variant)
                    ELSE IF s \in RangeOf(members[b]) THEN UpdateGapsV(gaps[s], vb, Variant)
                    ELSE gaps[s]]
           m2 == [members EXCEPT ![c] = members[a] \o members[b]]
       IN /\ gaps' = g2
          /\ members' = m2
          /\ plen' = [plen EXCEPT ![c] = Len(p)]
          /\ done' = done \cup {c}
          /\ consumed' = consumed \cup {a, b}
          /\ snap' = [snap EXCEPT ![c] = [i \in 1..Len(m2[c]) |-> Render(Res(m2[c][i]), g2[m2[c][i]])]]
          /\ next' = next + 1
    /\ prevPairs' = PairsOf(members, plen, done \ consumed, gaps)
    /\ UNCHANGED <<lens, final>>

Finalise ==
    /\ ~final
    /\ Cardinality(done \ consumed) = 1
    /\ final' = TRUE
    /\ UNCHANGED <<lens, gaps, members, plen, done, consumed, snap, next, prevPairs>>

Next ==
    \/ \E a \in done \ consumed : \E b \in (done \ consumed) \ {a} : \E p \in Paths(plen[a], plen[b]) : Merge(a, b, p)
    \/ Finalise

Spec == Init /\ [][Next]_vars

-----------------------------------------------------------------------------
Live == done \ consumed

(* C01: all rows of a live group have the group's length *)
RowLenInv == \A c \in Live : \A i \in 1..Len(members[c]) : RowLen(gaps[members[c][i]]) = plen[c]

(* C01: removing the dashes gives back the residues *)
Degap == \A s \in Leaves : StripDash(Render(Res(s), gaps[s])) = Res(s)

(* C01: no column of a live group is all dashes *)
NoAllGapColumn == \A c \in Live : AllGapCols(RowsOf(c, gaps)) = {}

(* C10: every finished group, projected out of the current state, is what it was when finished *)
MergePreserves == \A g \in done : Project(RowsOf(g, gaps)) = snap[g]

(* C10 corollary: residues that share a column keep sharing it (history variable prevPairs) *)
ColumnsMonotone == prevPairs \subseteq PairsOf(members, plen, Live, gaps)

FinalOk == final => /\ Cardinality(Live) = 1
                    /\ \A c \in Live : RangeOf(members[c]) = Leaves /\ Len(members[c]) = N
=============================================================================
