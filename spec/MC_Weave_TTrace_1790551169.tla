---- MODULE MC_Weave_TTrace_1790551169 ----
EXTENDS Sequences, TLCExt, Toolbox, MC_Weave, Naturals, TLC

_expression ==
    LET MC_Weave_TEExpression == INSTANCE MC_Weave_TEExpression
    IN MC_Weave_TEExpression!expression
----

_trace ==
    LET MC_Weave_TETrace == INSTANCE MC_Weave_TETrace
    IN MC_Weave_TETrace!trace
----

_inv ==
    ~(
        TLCGet("level") = Len(_TETrace)
        /\
        consumed = ({1, 2})
        /\
        next = (5)
        /\
        plen = (<<1, 2, 2, 2, 0>>)
        /\
        members = (<<<<1>>, <<2>>, <<3>>, <<2, 1>>, <<>>>>)
        /\
        final = (FALSE)
        /\
        prevPairs = ({})
        /\
        lens = (<<1, 2, 2>>)
        /\
        done = ({1, 2, 3, 4})
        /\
        gaps = (<<<<0, 0>>, <<0, 0, 0>>, <<0, 0, 0>>>>)
        /\
        snap = (<<<<<<101>>>>, <<<<201, 202>>>>, <<<<301, 302>>>>, <<<<201, 202>>, <<101>>>>, <<>>>>)
    )
----

_init ==
    /\ done = _TETrace[1].done
    /\ final = _TETrace[1].final
    /\ plen = _TETrace[1].plen
    /\ lens = _TETrace[1].lens
    /\ snap = _TETrace[1].snap
    /\ consumed = _TETrace[1].consumed
    /\ gaps = _TETrace[1].gaps
    /\ next = _TETrace[1].next
    /\ prevPairs = _TETrace[1].prevPairs
    /\ members = _TETrace[1].members
----

_next ==
    /\ \E i,j \in DOMAIN _TETrace:
        /\ \/ /\ j = i + 1
              /\ i = TLCGet("level")
        /\ done  = _TETrace[i].done
        /\ done' = _TETrace[j].done
        /\ final  = _TETrace[i].final
        /\ final' = _TETrace[j].final
        /\ plen  = _TETrace[i].plen
        /\ plen' = _TETrace[j].plen
        /\ lens  = _TETrace[i].lens
        /\ lens' = _TETrace[j].lens
        /\ snap  = _TETrace[i].snap
        /\ snap' = _TETrace[j].snap
        /\ consumed  = _TETrace[i].consumed
        /\ consumed' = _TETrace[j].consumed
        /\ gaps  = _TETrace[i].gaps
        /\ gaps' = _TETrace[j].gaps
        /\ next  = _TETrace[i].next
        /\ next' = _TETrace[j].next
        /\ prevPairs  = _TETrace[i].prevPairs
        /\ prevPairs' = _TETrace[j].prevPairs
        /\ members  = _TETrace[i].members
        /\ members' = _TETrace[j].members

\* Uncomment the ASSUME below to write the states of the error trace
\* to the given file in Json format. Note that you can pass any tuple
\* to `JsonSerialize`. For example, a sub-sequence of _TETrace.
    \* ASSUME
    \*     LET J == INSTANCE Json
    \*         IN J!JsonSerialize("MC_Weave_TTrace_1790551169.json", _TETrace)

=============================================================================

 Note that you can extract this module `MC_Weave_TEExpression`
  to a dedicated file to reuse `expression` (the module in the 
  dedicated `MC_Weave_TEExpression.tla` file takes precedence 
  over the module `MC_Weave_TEExpression` below).

---- MODULE MC_Weave_TEExpression ----
EXTENDS Sequences, TLCExt, Toolbox, MC_Weave, Naturals, TLC

expression == 
    [
        \* To hide variables of the `MC_Weave` spec from the error trace,
        \* remove the variables below.  The trace will be written in the order
        \* of the fields of this record.
        done |-> done
        ,final |-> final
        ,plen |-> plen
        ,lens |-> lens
        ,snap |-> snap
        ,consumed |-> consumed
        ,gaps |-> gaps
        ,next |-> next
        ,prevPairs |-> prevPairs
        ,members |-> members
        
        \* Put additional constant-, state-, and action-level expressions here:
        \* ,_stateNumber |-> _TEPosition
        \* ,_doneUnchanged |-> done = done'
        
        \* Format the `done` variable as Json value.
        \* ,_doneJson |->
        \*     LET J == INSTANCE Json
        \*     IN J!ToJson(done)
        
        \* Lastly, you may build expressions over arbitrary sets of states by
        \* leveraging the _TETrace operator.  For example, this is how to
        \* count the number of times a spec variable changed up to the current
        \* state in the trace.
        \* ,_doneModCount |->
        \*     LET F[s \in DOMAIN _TETrace] ==
        \*         IF s = 1 THEN 0
        \*         ELSE IF _TETrace[s].done # _TETrace[s-1].done
        \*             THEN 1 + F[s-1] ELSE F[s-1]
        \*     IN F[_TEPosition - 1]
    ]

=============================================================================



Parsing and semantic processing can take forever if the trace below is long.
 In this case, it is advised to uncomment the module below to deserialize the
 trace from a generated binary file.

\*
\*---- MODULE MC_Weave_TETrace ----
\*EXTENDS IOUtils, MC_Weave, TLC
\*
\*trace == IODeserialize("MC_Weave_TTrace_1790551169.bin", TRUE)
\*
\*=============================================================================
\*

---- MODULE MC_Weave_TETrace ----
EXTENDS MC_Weave, TLC

trace == 
    <<
    ([consumed |-> {},next |-> 4,plen |-> <<1, 2, 2, 0, 0>>,members |-> <<<<1>>, <<2>>, <<3>>, <<>>, <<>>>>,final |-> FALSE,prevPairs |-> {},lens |-> <<1, 2, 2>>,done |-> 1..3,gaps |-> <<<<0, 0>>, <<0, 0, 0>>, <<0, 0, 0>>>>,snap |-> <<<<<<101>>>>, <<<<201, 202>>>>, <<<<301, 302>>>>, <<>>, <<>>>>]),
    ([consumed |-> {1, 2},next |-> 5,plen |-> <<1, 2, 2, 2, 0>>,members |-> <<<<1>>, <<2>>, <<3>>, <<2, 1>>, <<>>>>,final |-> FALSE,prevPairs |-> {},lens |-> <<1, 2, 2>>,done |-> {1, 2, 3, 4},gaps |-> <<<<0, 0>>, <<0, 0, 0>>, <<0, 0, 0>>>>,snap |-> <<<<<<101>>>>, <<<<201, 202>>>>, <<<<301, 302>>>>, <<<<201, 202>>, <<101>>>>, <<>>>>])
    >>
----


=============================================================================

---- CONFIG MC_Weave_TTrace_1790551169 ----
CONSTANTS
    N = 3
    MaxLen = 2
    Variant = "offbyone"

INVARIANT
    _inv

CHECK_DEADLOCK
    \* CHECK_DEADLOCK off because of PROPERTY or INVARIANT above.
    FALSE

INIT
    _init

NEXT
    _next

CONSTANT
    _TETrace <- _trace

ALIAS
    _expression
=============================================================================
\* Generated on Sun Sep 27 23:19:30 UTC 2026