CONSTANTS N = 3  MaxLen = 3  Variant = "ok"
SPECIFICATION Spec
INVARIANTS RowLenInv Degap NoAllGapColumn MergePreserves ColumnsMonotone FinalOk
CHECK_DEADLOCK FALSE
