CONSTANTS N = 3  MaxLen = 2  Variant = "offbyone"
SPECIFICATION Spec
INVARIANTS RowLenInv NoAllGapColumn MergePreserves
CHECK_DEADLOCK FALSE
