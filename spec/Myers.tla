------------------------------- MODULE Myers -------------------------------
(***************************************************************************)
(* The guide-tree distance kernel of kalign (bpm.c).                        *)
(*                                                                          *)
(* SemiGlobal(t, p): the minimum, over all substrings s of the text t, of   *)
(* the edit distance between s and the pattern p (unit costs).  Written as  *)
(* a column-by-column dynamic programme with folds (TLC evaluates it at     *)
(* ~10^5 cells/s, so it also serves as the oracle for recorded calls).      *)
(*                                                                          *)
(* Block(t, p, W, Cap): the blocked bit-vector algorithm of bpm_block,      *)
(* generic in the word width W (64 in the code): pattern cut to Cap         *)
(* symbols, ceil(m/W) blocks, positions >= m of the last block match any    *)
(* symbol, the text is extended by W*bmax-m symbols 0, horizontal deltas    *)
(* are carried from block to block.  Words are sequences of W booleans,     *)
(* index 1 = least significant bit.                                         *)
(* Property served: C11 (and the premise of C12).                           *)
(***************************************************************************)
EXTENDS Naturals, Integers, Sequences, SequencesExt, FiniteSets, TLC

Min2(a, b) == IF a < b THEN a ELSE b

(* one text symbol c: column (D[0..m]) -> next column; D[0] stays 0 (free start) *)
NextCol(col, c, p) ==
    LET m == Len(p)
        step(acc, j) ==
            \* acc: new column built so far, entries 0..j-1 (as a sequence with index shift 1)
            LET diag == col[j] + (IF p[j] = c THEN 0 ELSE 1)      \* col[j] is D_old[j-1]
                up == col[j + 1] + 1                               \* D_old[j] + 1
                left == acc[j] + 1                                 \* D_new[j-1] + 1
            IN Append(acc, Min2(diag, Min2(up, left)))
    IN FoldLeft(step, <<0>>, [j \in 1..m |-> j])

FirstCol(m) == [j \in 1..(m + 1) |-> j - 1]

(* minimum over all columns (including the empty prefix) of the last row *)
SemiGlobal(t, p) ==
    LET m == Len(p)
        step(acc, c) ==
            LET nc == NextCol(acc.col, c, p)
            IN [col |-> nc, best |-> Min2(acc.best, nc[m + 1])]
    IN FoldLeft(step, [col |-> FirstCol(m), best |-> m], t).best

Prefix(p, cap) == IF Len(p) > cap THEN SubSeq(p, 1, cap) ELSE p

-----------------------------------------------------------------------------
(* words *)
Zero(W) == [i \in 1..W |-> FALSE]
Ones(W) == [i \in 1..W |-> TRUE]
And(x, y) == [i \in 1..Len(x) |-> x[i] /\ y[i]]
Or(x, y) == [i \in 1..Len(x) |-> x[i] \/ y[i]]
Xor(x, y) == [i \in 1..Len(x) |-> x[i] # y[i]]
Not(x) == [i \in 1..Len(x) |-> ~x[i]]
Shl1(x) == [i \in 1..Len(x) |-> IF i = 1 THEN FALSE ELSE x[i - 1]]
SetLow(x) == [x EXCEPT ![1] = TRUE]
High(x) == x[Len(x)]
(* addition modulo 2^W (ripple carry) *)
Add(x, y) ==
    LET step(acc, i) ==
            LET s == (IF x[i] THEN 1 ELSE 0) + (IF y[i] THEN 1 ELSE 0) + acc.carry
            IN [w |-> Append(acc.w, s % 2 = 1), carry |-> s \div 2]
    IN FoldLeft(step, [w |-> <<>>, carry |-> 0], [i \in 1..Len(x) |-> i]).w

DivCeil(a, b) == IF a = 0 THEN 1 ELSE (a \div b) + (IF a % b = 0 THEN 0 ELSE 1)

(* Peq[c][block]: bit i set iff position >= m (wildcard) or p[position] = c *)
Peq(p, m, c, b, W) == [i \in 1..W |-> LET pos == b * W + i IN pos > m \/ p[pos] = c]

(* one block, one text symbol: returns new P, M and the horizontal delta carried out *)
Advance(Pv, Mv, Eq0, hIn) ==
    LET Xv == Or(Eq0, Mv)
        Eq == IF hIn < 0 THEN SetLow(Eq0) ELSE Eq0
        Xh == Or(Xor(Add(And(Eq, Pv), Pv), Pv), Eq)
        Ph0 == Or(Mv, Not(Or(Xh, Pv)))
        Mh0 == And(Pv, Xh)
        hOut == (IF High(Ph0) THEN 1 ELSE 0) - (IF High(Mh0) THEN 1 ELSE 0)
        Ph1 == Shl1(Ph0)
        Mh1 == Shl1(Mh0)
        Mh == IF hIn < 0 THEN SetLow(Mh1) ELSE Mh1
        Ph == IF hIn > 0 THEN SetLow(Ph1) ELSE Ph1
    IN [P |-> Or(Mh, Not(Or(Xv, Ph))), M |-> And(Ph, Xv), h |-> hOut]

(* the whole routine; PadVariant = "ok" is the code, "multiple" is the broken twin (padding w - m % w) *)
BlockV(t, p0, W, Cap, PadVariant) ==
    LET p == Prefix(p0, Cap)
        m == Len(p)
        bmax == DivCeil(m, W)
        pad == IF PadVariant = "ok" THEN W * bmax - m ELSE W - (m % W)
        text == t \o [i \in 1..pad |-> 0]
        init == [P |-> [b \in 1..bmax |-> Ones(W)], M |-> [b \in 1..bmax |-> Zero(W)],
                 score |-> [b \in 1..bmax |-> b * W], k |-> m]
        col(st, c) ==
            LET blk(acc, b) ==
                    LET r == Advance(acc.P[b], acc.M[b], Peq(p, m, c, b - 1, W), acc.carry)
                    IN [P |-> [acc.P EXCEPT ![b] = r.P], M |-> [acc.M EXCEPT ![b] = r.M],
                        score |-> [acc.score EXCEPT ![b] = @ + r.h], carry |-> r.h]
                after == FoldLeft(blk, [P |-> st.P, M |-> st.M, score |-> st.score, carry |-> 0], [b \in 1..bmax |-> b])
            IN [P |-> after.P, M |-> after.M, score |-> after.score, k |-> Min2(st.k, after.score[bmax])]
    IN FoldLeft(col, init, text).k

Block(t, p, W, Cap) == BlockV(t, p, W, Cap, "ok")
=============================================================================
