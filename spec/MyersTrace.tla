----------------------------- MODULE MyersTrace -----------------------------
(* return-value conformance of bpm_block / bpm / bpm_256 (events "Bpm": t, p, block, [w64], [w256]) with Myers!SemiGlobal *)
EXTENDS Myers, Json, IOUtils
Trace == ndJsonDeserialize(IOEnv.TRACE)
VARIABLES l, viol
vars == <<l, viol>>
Ev == Trace[l]
Init == l = 1 /\ viol = {}
Report(v) == viol' = v /\ IF v # {} THEN PrintT(<<"KVFAIL", l, "bpm", v>>) ELSE TRUE
Cap == 1024
TBpm ==
    /\ l <= Len(Trace) /\ Ev.e = "Bpm"
    /\ l' = l + 1
    /\ LET want == SemiGlobal(Ev.t, Prefix(Ev.p, Cap))
       IN Report((IF Ev.block # want THEN {"C11:blocked-routine-differs-from-edit-distance"} ELSE {})
                 \cup (IF "w64" \in DOMAIN Ev /\ Ev.w64 # want THEN {"C11:64-bit-variant-differs"} ELSE {})
                 \cup (IF "w256" \in DOMAIN Ev /\ Ev.w256 # want THEN {"C11:256-bit-variant-differs"} ELSE {}))
TOther == l <= Len(Trace) /\ Ev.e # "Bpm" /\ l' = l + 1 /\ Report({})
Next == TBpm \/ TOther
Spec == Init /\ [][Next]_vars
NoViolation == viol = {}
Accepted == TLCGet("stats").diameter - 1 = Len(Trace)
=============================================================================
