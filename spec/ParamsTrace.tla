----------------------------- MODULE ParamsTrace -----------------------------
(***************************************************************************)
(* Binds Params to the code (C09):                                         *)
(*   ParamInit   direct calls of aln_param_init (complete table)           *)
(*   RunBegin / Params / RunEnd   what kalign_run actually puts in force   *)
(*   Cli         a command line run: the --type word and penalties given;  *)
(*               the hook events of that process follow                    *)
(*   Obj def/exp rows of a default run and of the explicit-default run     *)
(***************************************************************************)
EXTENDS Params, Json, IOUtils, TLC

Trace == ndJsonDeserialize(IOEnv.TRACE)

VARIABLES l, sid, pend, cli, defrows, viol

vars == <<l, sid, pend, cli, defrows, viol>>

Ev == Trace[l]
Is(e) == l <= Len(Trace) /\ Trace[l].e = e

None == [k |-> "none"]

Init == l = 1 /\ sid = "none" /\ pend = None /\ cli = None /\ defrows = <<>> /\ viol = {}

Report(v) ==
    /\ viol' = v
    /\ IF v # {} THEN PrintT(<<"KVFAIL", l, sid, v>>) ELSE TRUE

Same(ev, exp) ==
    /\ ev.gpo = exp.gpo /\ ev.gpe = exp.gpe /\ ev.tgpe = exp.tgpe

Mism(ev, exp) ==
    (IF ev.gpo # exp.gpo THEN {"C09:gpo"} ELSE {})
    \cup (IF ev.gpe # exp.gpe THEN {"C09:gpe"} ELSE {})
    \cup (IF ev.tgpe # exp.tgpe THEN {"C09:tgpe"} ELSE {})
    \cup (IF ev.subm # exp.subm THEN {"C09:matrix"} ELSE {})

TReset == Is("Reset") /\ l' = l + 1 /\ sid' = "none" /\ pend' = None /\ cli' = None /\ defrows' = <<>> /\ Report({})
TNote == Is("Note") /\ l' = l + 1 /\ sid' = Ev.text /\ UNCHANGED <<pend, cli, defrows>> /\ Report({})

TParamInit ==
    /\ Is("ParamInit")
    /\ l' = l + 1
    /\ UNCHANGED <<sid, pend, cli, defrows>>
    /\ LET exp == ParamInit(Ev.biotype, Ev.type, Ev.ingpo, Ev.ingpe, Ev.intgpe)
       IN Report(IF exp.rc # 0
                 THEN (IF Ev.rc = 0 THEN {"C09:incompatible-type-accepted"} ELSE {})
                 ELSE (IF Ev.rc # 0 THEN {"C09:compatible-type-rejected"} ELSE Mism(Ev, exp)))

TCli ==
    /\ Is("Cli")
    /\ l' = l + 1
    /\ cli' = [k |-> "cli", word |-> Ev.word, gpo |-> Ev.gpo, gpe |-> Ev.gpe, tgpe |-> Ev.tgpe, exit |-> Ev.exit, began |-> FALSE]
    /\ UNCHANGED <<sid, pend, defrows>>
    /\ Report(IF TypeWord(Ev.word) = -1 /\ Ev.exit = 0 THEN {"C09:unknown-type-word-accepted"} ELSE {})

TRunBegin ==
    /\ Is("RunBegin")
    /\ l' = l + 1
    /\ pend' = [k |-> "run", biotype |-> Ev.biotype, type |-> Ev.type, gpo |-> Ev.gpo, gpe |-> Ev.gpe, tgpe |-> Ev.tgpe, seen |-> FALSE]
    /\ cli' = IF cli.k = "cli" THEN [cli EXCEPT !.began = TRUE] ELSE cli
    /\ UNCHANGED <<sid, defrows>>
    /\ Report(IF cli.k = "cli" /\ ~cli.began
              THEN (IF TypeWord(cli.word) = -1 THEN {"C09:unknown-type-word-accepted"}
                    ELSE (IF Ev.type # TypeWord(cli.word) THEN {"C09:type-word-selects-other-type"} ELSE {})
                         \cup (IF Ev.gpo # cli.gpo \/ Ev.gpe # cli.gpe \/ Ev.tgpe # cli.tgpe THEN {"C09:cli-penalty-not-passed"} ELSE {}))
              ELSE {})

TParams ==
    /\ Is("Params")
    /\ l' = l + 1
    /\ pend' = IF pend.k = "run" THEN [pend EXCEPT !.seen = TRUE] ELSE pend
    /\ UNCHANGED <<sid, cli, defrows>>
    /\ Report(IF pend.k # "run" THEN {}
              ELSE LET exp == ParamInit(pend.biotype, pend.type, pend.gpo, pend.gpe, pend.tgpe)
                   IN IF exp.rc # 0 THEN {"C09:incompatible-type-accepted"} ELSE Mism(Ev, exp))

TRunEnd ==
    /\ Is("RunEnd")
    /\ l' = l + 1
    /\ pend' = None
    /\ UNCHANGED <<sid, cli, defrows>>
    /\ Report(IF pend.k = "run" /\ ~pend.seen /\ Ev.rc # 0 /\ pend.biotype \in {BDNA, BPROTEIN}
                 /\ ParamInit(pend.biotype, pend.type, pend.gpo, pend.gpe, pend.tgpe).rc = 0
              THEN {"C09:compatible-type-rejected"} ELSE {})

(* the CLI process is over: a compatible word must have led to a run, exit status must agree *)
TCliEnd ==
    /\ Is("CliEnd")
    /\ l' = l + 1
    /\ cli' = None
    /\ UNCHANGED <<sid, pend, defrows>>
    /\ Report(IF cli.k # "cli" THEN {}
              ELSE (IF TypeWord(cli.word) # -1 /\ ~cli.began THEN {"C09:type-word-not-accepted"} ELSE {}))

TObj ==
    /\ Is("Obj")
    /\ l' = l + 1
    /\ UNCHANGED <<sid, pend, cli>>
    /\ defrows' = IF Ev.tag = "def" THEN Ev.seqs ELSE defrows
    /\ Report(IF Ev.tag = "exp" /\ defrows # <<>> /\ Ev.seqs # defrows THEN {"C09:explicit-default-differs-from-default"} ELSE {})

Skippable == {"Call", "Ret", "Ranked", "Sorted", "Dm", "Anchors", "KmNode", "KmSplit", "KmReduce", "KmKids", "KmDone", "Tree",
              "HStep", "HSplit", "HFwd", "HBwd", "HMeet", "MergeBegin", "MergeEnd", "Final", "End", "Heap"}

TSkip ==
    /\ l <= Len(Trace) /\ Trace[l].e \in Skippable
    /\ l' = l + 1
    /\ UNCHANGED <<sid, pend, cli, defrows>>
    /\ Report({})

Next == TReset \/ TNote \/ TParamInit \/ TCli \/ TRunBegin \/ TParams \/ TRunEnd \/ TCliEnd \/ TObj \/ TSkip

Spec == Init /\ [][Next]_vars
NoViolation == viol = {}
Accepted == TLCGet("stats").diameter - 1 = Len(Trace)
=============================================================================
