------------------------------ MODULE Profile ------------------------------
(***************************************************************************)
(* Profiles (aln_setup.c make_profile_n, set_gap_penalties_n, update_n) and *)
(* one progressive merge (aln_run.c do_align) on top of GKernel.            *)
(* A profile of an alignment with L columns is a sequence of L + 2 columns  *)
(* (0 and L+1 are empty sentinels that only carry gap penalties).           *)
(* update_n as the code runs it: the "gap info" loop of                     *)
(* add_gap_info_to_path_n never executes (its condition tests the end       *)
(* marker it has just written), so no position is flagged open or close;    *)
(* every gap position is charged an extension (gpe), or tgpe inside the     *)
(* leading / trailing gap run, times the number of sequences that have the  *)
(* gap, on all 23 score entries of the column taken from the other side.    *)
(***************************************************************************)
EXTENDS GKernel

Zero23 == [c \in 1..23 |-> 0]
Sentinel(q) == [cnt |-> Zero23, sc |-> Zero23, g |-> <<q.gpo, q.gpe, q.tgpe>>]
ColOf(q, x) == [cnt |-> [c \in 1..23 |-> IF c = x + 1 THEN 1 ELSE 0], sc |-> [c \in 1..23 |-> q.subm[x * 23 + c]], g |-> <<q.gpo, q.gpe, q.tgpe>>]
MakeProfile(q, s) == <<Sentinel(q)>> \o [k \in 1..Len(s) |-> ColOf(q, s[k])] \o <<Sentinel(q)>>

PlusCol(x, y) == [cnt |-> [c \in 1..23 |-> x.cnt[c] + y.cnt[c]], sc |-> [c \in 1..23 |-> x.sc[c] + y.sc[c]], g |-> <<x.g[1] + y.g[1], x.g[2] + y.g[2], x.g[3] + y.g[3]>>]
Charged(x, gp) == [x EXCEPT !.sc = [c \in 1..23 |-> x.sc[c] - gp]]

(* terminal flags: the positions of the leading and of the trailing run of non-zero codes *)
Terminal(p, k) == (\A i \in 1..k : p[i] # 0) \/ (\A i \in k..Len(p) : p[i] # 0)

(* p: codes relative to (a, b): 1 = column of b only (gap in a), 2 = column of a only *)
Merge(q, pa, pb, p, sipa, sipb) ==
    LET step(acc, k) ==
            IF p[k] = 0 THEN [out |-> Append(acc.out, PlusCol(PC(pa, acc.ia + 1), PC(pb, acc.ib + 1))), ia |-> acc.ia + 1, ib |-> acc.ib + 1]
            ELSE IF p[k] = 1
                 THEN [out |-> Append(acc.out, Charged(PC(pb, acc.ib + 1), (IF Terminal(p, k) THEN q.tgpe ELSE q.gpe) * sipa)), ia |-> acc.ia, ib |-> acc.ib + 1]
                 ELSE [out |-> Append(acc.out, Charged(PC(pa, acc.ia + 1), (IF Terminal(p, k) THEN q.tgpe ELSE q.gpe) * sipb)), ia |-> acc.ia + 1, ib |-> acc.ib]
        r == FoldLeft(step, [out |-> <<PlusCol(PC(pa, 0), PC(pb, 0))>>, ia |-> 0, ib |-> 0], [k \in 1..Len(p) |-> k])
    IN Append(r.out, PlusCol(PC(pa, r.ia + 1), PC(pb, r.ib + 1)))

(* one merge of nodes A and B (do_align): which side is rows, which kernel, whether the path is mirrored.
   node = [n: number of sequences, len: number of columns, s: residue codes (n = 1 only), prof: profile] *)
Orient(A, B) ==
    IF A.n = 1 /\ B.n = 1 THEN (IF A.len < B.len THEN [rows |-> "a", kind |-> 0] ELSE [rows |-> "b", kind |-> 0])
    ELSE IF A.n = 1 THEN [rows |-> "b", kind |-> 1]
    ELSE IF B.n = 1 THEN [rows |-> "a", kind |-> 1]
    ELSE (IF A.len < B.len THEN [rows |-> "a", kind |-> 2] ELSE [rows |-> "b", kind |-> 2])
Context(q, A, B) ==
    LET o == Orient(A, B)
        R == IF o.rows = "a" THEN A ELSE B
        C == IF o.rows = "a" THEN B ELSE A
    IN IF o.kind = 0 THEN CxSeqSeq(q, R.s, C.s)
       ELSE IF o.kind = 1 THEN CxProfSeq(q, R.prof, R.n, C.s)
       ELSE CxProfProf(q, R.prof, R.n, C.prof, C.n)
(* codes relative to (A, B) from the cells of the DP *)
PathAB(A, B, cells) ==
    LET o == Orient(A, B)
        R == IF o.rows = "a" THEN A ELSE B
        C == IF o.rows = "a" THEN B ELSE A
        p == Codes(R.len, C.len, cells)
    IN IF o.rows = "a" THEN p ELSE Mirror(p)
Joined(q, A, B, p) == [n |-> A.n + B.n, len |-> Len(p), s |-> <<>>, prof |-> Merge(q, A.prof, B.prof, p, A.n, B.n)]
Leaf(q, s) == [n |-> 1, len |-> Len(s), s |-> s, prof |-> MakeProfile(q, s)]
=============================================================================
