-------------------------- MODULE ProgressiveTrace --------------------------
(***************************************************************************)
(* A whole progressive alignment (single thread) walked merge by merge:     *)
(* for every task of the guide tree the model builds the two operands       *)
(* (sequences or profiles, Profile.tla), chooses the kernel and orientation *)
(* (Profile!Orient), and re-derives every recorded split of the Hirschberg  *)
(* recursion from GKernel; at the end of a merge the path rendered from the *)
(* code's own splits is merged into the profile of the new node             *)
(* (Profile!Merge), which later merges use.                                 *)
(*   Obj in   seqs (ASCII, input order)                                     *)
(*   Sorted   ranks: node k of the tree = input sequence ranks[k+1]         *)
(*   Params   subm, gpo, gpe, tgpe, biotype                                 *)
(*   MergeBegin a, b, c   HSplit sa, ea, sb, eb, mid, meet, tr              *)
(*   MergeEnd c, plen                                                       *)
(* A mismatch is a model divergence (diagnostic), not a property verdict.   *)
(***************************************************************************)
EXTENDS Profile, Alphabet, Json, IOUtils
Trace == ndJsonDeserialize(IOEnv.TRACE)
VARIABLES l, inp, par, nodes, cur, viol
vars == <<l, inp, par, nodes, cur, viol>>
Ev == Trace[l]
Is(e) == l <= Len(Trace) /\ Trace[l].e = e
None == [k |-> "none"]
Init == l = 1 /\ inp = <<>> /\ par = None /\ nodes = <<>> /\ cur = None /\ viol = {}
Report(v) == viol' = v /\ IF v # {} THEN PrintT(<<"KVDIV", l, "progressive", v>>) ELSE TRUE
Put(f, k, v) == [x \in (DOMAIN f) \cup {k} |-> IF x = k THEN v ELSE f[x]]
Tol == 200
ExactPar(q) == q.gpo % 5 = 0 /\ q.gpe % 5 = 0 /\ q.tgpe % 5 = 0 /\ \A k \in 1..Len(q.subm) : q.subm[k] % 5 = 0
MaxAbs(q) == Mx3(FoldLeft(LAMBDA acc, x : IF Abs(x) > acc THEN Abs(x) ELSE acc, 0, q.subm), q.gpo, q.tgpe)
Scaled(p) == [subm |-> [k \in 1..Len(p.subm) |-> p.subm[k] * K], gpo |-> p.gpo * K, gpe |-> p.gpe * K, tgpe |-> p.tgpe * K]

TIn == /\ Is("Obj") /\ Ev.tag = "in" /\ l' = l + 1
       /\ inp' = Ev.seqs /\ par' = None /\ nodes' = <<>> /\ cur' = None /\ viol' = {}
TParams == /\ Is("Params") /\ l' = l + 1
           /\ par' = [k |-> "ok", subm |-> Ev.subm, gpo |-> Ev.gpo, gpe |-> Ev.gpe, tgpe |-> Ev.tgpe, biotype |-> Ev.biotype]
           /\ UNCHANGED <<inp, nodes, cur>> /\ viol' = {}
(* the leaves: node k (0-based) is the k-th sequence of the canonical order *)
TSorted == /\ Is("Sorted") /\ l' = l + 1
           /\ nodes' = IF Len(Ev.ranks) = Len(inp) /\ Len(inp) > 0 THEN [k \in 0..(Len(inp) - 1) |-> [raw |-> inp[Ev.ranks[k + 1] + 1]]] ELSE <<>>
           /\ UNCHANGED <<inp, par, cur>> /\ viol' = {}
Alpha == IF par.biotype = 1 THEN A_DNA ELSE A_PROT23
(* a node as Profile wants it; leaves are encoded when first used (the parameters arrive after Sorted) *)
Node(x) == IF "raw" \in DOMAIN nodes[x] THEN Leaf(Scaled(par), [k \in 1..Len(nodes[x].raw) |-> Code(Alpha, nodes[x].raw[k])]) ELSE nodes[x]
Budget(A, B) == (A.len + B.len) * A.n * B.n * MaxAbs(par) < 2000000

TMergeBegin ==
    /\ Is("MergeBegin") /\ l' = l + 1 /\ UNCHANGED <<inp, par, nodes>>
    /\ IF par.k = "ok" /\ Ev.a \in DOMAIN nodes /\ Ev.b \in DOMAIN nodes
       THEN LET A == Node(Ev.a)
                B == Node(Ev.b)
            IN IF Budget(A, B)
               THEN LET cx == Context(Scaled(par), A, B)
                    IN /\ cur' = [k |-> "merge", a |-> Ev.a, b |-> Ev.b, c |-> Ev.c, A |-> A, B |-> B, cx |-> cx, cells |-> {},
                                  bnd |-> Put(<<>>, <<0, cx.n, 0, cx.m>>, <<St(0, NEG, NEG), St(0, NEG, NEG)>>), nsplit |-> 0]
                       /\ viol' = {}
               ELSE cur' = None /\ viol' = {} /\ PrintT(<<"KVSKIP", l, "progressive", "merge-too-large">>)
       ELSE cur' = None /\ viol' = {} /\ PrintT(<<"KVSKIP", l, "progressive", "operand-unknown">>)

THSplit ==
    /\ Is("HSplit") /\ l' = l + 1 /\ UNCHANGED <<inp, par, nodes>>
    /\ IF cur.k # "merge" THEN UNCHANGED cur /\ viol' = {}
       ELSE LET r == <<Ev.sa, Ev.ea, Ev.sb, Ev.eb>>
            IN IF r \notin DOMAIN cur.bnd
               THEN UNCHANGED cur /\ Report({"Progressive.split-of-a-rectangle-no-parent-prescribes"})
               ELSE LET mt == Split(cur.cx, r, cur.bnd[r][1], cur.bnd[r][2])
                        same == mt.c = Ev.meet /\ mt.tr = Ev.tr
                        exact == ExactPar(par) /\ (cur.A.len + cur.B.len) * cur.A.n * cur.B.n * MaxAbs(par) < 40000
                        close == mt.max - mt.second <= Tol /\ ~exact
                        okc == Ev.tr \in Trans /\ Allowed(r, Ev.meet, Ev.tr)
                        ch == Children(r, Ev.meet, Ev.tr)
                    IN /\ cur' = IF okc THEN [cur EXCEPT !.bnd = Put(Put(@, ch[1], <<cur.bnd[r][1], LeftB0(Ev.tr)>>), ch[2], <<RightF0(Ev.tr), cur.bnd[r][2]>>),
                                                         !.cells = @ \cup Cells(r, Ev.meet, Ev.tr), !.nsplit = @ + 1]
                                 ELSE cur
                       /\ IF same THEN viol' = {}
                          ELSE IF close THEN PrintT(<<"KVNOTE", l, "progressive", "too-close-to-call-in-float">>) /\ viol' = {}
                          ELSE /\ PrintT(<<"KVINFO", l, cur.cx.kind, r, "code", Ev.meet, Ev.tr, "model", mt.c, mt.tr, "margin", mt.max - mt.second>>)
                               /\ Report({"Progressive.meet-or-transition-differs-from-the-model"})

TMergeEnd ==
    /\ Is("MergeEnd") /\ l' = l + 1 /\ UNCHANGED <<inp, par>>
    /\ cur' = None
    /\ IF cur.k # "merge" \/ cur.c # Ev.c THEN UNCHANGED nodes /\ viol' = {}
       ELSE LET o == Orient(cur.A, cur.B)
                R == IF o.rows = "a" THEN cur.A ELSE cur.B
                C == IF o.rows = "a" THEN cur.B ELSE cur.A
                wf == WellFormedCells(R.len, C.len, cur.cells)
                p == PathAB(cur.A, cur.B, cur.cells)
            IN IF ~wf THEN UNCHANGED nodes /\ Report({"Progressive.cells-not-well-formed"})
               ELSE /\ nodes' = Put(nodes, Ev.c, Joined(Scaled(par), cur.A, cur.B, p))
                    /\ PrintT(<<"KVMERGE", l, cur.cx.kind, cur.nsplit>>)
                    /\ Report(IF Len(p) # Ev.plen THEN {"Progressive.path-length-differs"} ELSE {})

TOther ==
    /\ l <= Len(Trace)
    /\ ~(Ev.e \in {"Params", "Sorted", "MergeBegin", "HSplit", "MergeEnd"} \/ (Ev.e = "Obj" /\ Ev.tag = "in"))
    /\ l' = l + 1 /\ UNCHANGED <<inp, par, nodes, cur>> /\ viol' = {}
Next == TIn \/ TParams \/ TSorted \/ TMergeBegin \/ THSplit \/ TMergeEnd \/ TOther
Spec == Init /\ [][Next]_vars
Accepted == TLCGet("stats").diameter - 1 = Len(Trace)
=============================================================================
