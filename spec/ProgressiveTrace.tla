-------------------------- MODULE ProgressiveTrace --------------------------
(***************************************************************************)
(* A whole progressive alignment (single thread) walked merge by merge:     *)
(* for every task of the guide tree the model builds the two operands       *)
(* (sequences or profiles, Profile.tla), chooses the kernel and orientation *)
(* (Profile!Orient), and re-derives every recorded split of the Hirschberg  *)
(* recursion from GKernel; at the end of a merge the path rendered from the *)
(* code's own splits is merged into the profile of the new node             *)
(* (Profile!Merge), which later merges use.                                 *)
(*   Obj in   seqs (ASCII, input order)                                     *)
(*   Sorted   ranks: node k of the tree = input sequence ranks[k+1]         *)
(*   Params   subm, gpo, gpe, tgpe, biotype                                 *)
(*   MergeBegin a, b, c   HSplit sa, ea, sb, eb, mid, meet, tr              *)
(*   MergeEnd c, plen                                                       *)
(* A mismatch is a model divergence (diagnostic), not a property verdict.   *)
(***************************************************************************)
EXTENDS Profile, Alphabet, Json, IOUtils
W == INSTANCE Weave
Trace == ndJsonDeserialize(IOEnv.TRACE)
VARIABLES l, inp, par, nodes, cur, gaps, viol
vars == <<l, inp, par, nodes, cur, gaps, viol>>
Ev == Trace[l]
Is(e) == l <= Len(Trace) /\ Trace[l].e = e
None == [k |-> "none"]
Init == l = 1 /\ inp = <<>> /\ par = None /\ nodes = <<>> /\ cur = None /\ gaps = [k |-> "none"] /\ viol = {}
Report(v) == viol' = v /\ IF v # {} THEN PrintT(<<"KVDIV", l, "progressive", v>>) ELSE TRUE
Put(f, k, v) == [x \in (DOMAIN f) \cup {k} |-> IF x = k THEN v ELSE f[x]]
Tol == 200
ExactPar(q) == q.gpo % 5 = 0 /\ q.gpe % 5 = 0 /\ q.tgpe % 5 = 0 /\ \A k \in 1..Len(q.subm) : q.subm[k] % 5 = 0
MaxAbs(q) == Mx3(FoldLeft(LAMBDA acc, x : IF Abs(x) > acc THEN Abs(x) ELSE acc, 0, q.subm), q.gpo, q.tgpe)
Scaled(p) == [subm |-> [k \in 1..Len(p.subm) |-> p.subm[k] * K], gpo |-> p.gpo * K, gpe |-> p.gpe * K, tgpe |-> p.tgpe * K]

TIn == /\ Is("Obj") /\ Ev.tag = "in" /\ l' = l + 1
       /\ inp' = Ev.seqs /\ par' = None /\ nodes' = <<>> /\ cur' = None /\ gaps' = [k |-> "none"] /\ viol' = {}
TParams == /\ Is("Params") /\ l' = l + 1
           /\ par' = [k |-> "ok", subm |-> Ev.subm, gpo |-> Ev.gpo, gpe |-> Ev.gpe, tgpe |-> Ev.tgpe, biotype |-> Ev.biotype]
           /\ UNCHANGED <<inp, nodes, cur, gaps>> /\ viol' = {}
(* the leaves: node k (0-based) is the k-th sequence of the canonical order *)
TSorted == /\ Is("Sorted") /\ l' = l + 1
           /\ nodes' = IF Len(Ev.ranks) = Len(inp) /\ Len(inp) > 0 THEN [k \in 0..(Len(inp) - 1) |-> [raw |-> inp[Ev.ranks[k + 1] + 1], leaves |-> {k}]] ELSE <<>>
           \* gap vectors of the leaves (Weave): all zero before the first merge; ranks: where each leaf's row goes in the output
           /\ gaps' = IF Len(Ev.ranks) = Len(inp) /\ Len(inp) > 0
                      THEN [k |-> "ok", ranks |-> Ev.ranks, g |-> [k \in 0..(Len(inp) - 1) |-> [i \in 1..(Len(inp[Ev.ranks[k + 1] + 1]) + 1) |-> 0]]]
                      ELSE [k |-> "none"]
           /\ UNCHANGED <<inp, par, cur>> /\ viol' = {}
Alpha == IF par.biotype = 1 THEN A_DNA ELSE A_PROT23
(* a node as Profile wants it; leaves are encoded when first used (the parameters arrive after Sorted) *)
Node(x) == IF "raw" \in DOMAIN nodes[x]
           THEN [Leaf(Scaled(par), [k \in 1..Len(nodes[x].raw) |-> Code(Alpha, nodes[x].raw[k])]) EXCEPT !.n = 1] @@ [leaves |-> nodes[x].leaves]
           ELSE nodes[x]
Budget(A, B) == (A.len + B.len) * A.n * B.n * MaxAbs(par) < 2000000

TMergeBegin ==
    /\ Is("MergeBegin") /\ l' = l + 1 /\ UNCHANGED <<inp, par, nodes, gaps>>
    /\ IF par.k = "ok" /\ Ev.a \in DOMAIN nodes /\ Ev.b \in DOMAIN nodes
       THEN LET A == Node(Ev.a)
                B == Node(Ev.b)
            IN IF Budget(A, B)
               THEN LET cx == Context(Scaled(par), A, B)
                    IN /\ cur' = [k |-> "merge", a |-> Ev.a, b |-> Ev.b, c |-> Ev.c, A |-> A, B |-> B, cx |-> cx, cells |-> {},
                                  bnd |-> Put(<<>>, <<0, cx.n, 0, cx.m>>, <<St(0, NEG, NEG), St(0, NEG, NEG)>>), nsplit |-> 0]
                       /\ viol' = {}
               ELSE cur' = [k |-> "skipped"] /\ viol' = {} /\ PrintT(<<"KVSKIP", l, "progressive", "merge-too-large">>)
       ELSE cur' = [k |-> "skipped"] /\ viol' = {} /\ PrintT(<<"KVSKIP", l, "progressive", "operand-unknown">>)

THSplit ==
    /\ Is("HSplit") /\ l' = l + 1 /\ UNCHANGED <<inp, par, nodes, gaps>>
    /\ IF cur.k # "merge" THEN UNCHANGED cur /\ viol' = {}
       ELSE LET r == <<Ev.sa, Ev.ea, Ev.sb, Ev.eb>>
            IN IF r \notin DOMAIN cur.bnd
               THEN UNCHANGED cur /\ Report({"Progressive.split-of-a-rectangle-no-parent-prescribes"})
               ELSE LET mt == Split(cur.cx, r, cur.bnd[r][1], cur.bnd[r][2])
                        same == mt.c = Ev.meet /\ mt.tr = Ev.tr
                        exact == ExactPar(par) /\ (cur.A.len + cur.B.len) * cur.A.n * cur.B.n * MaxAbs(par) < 40000
                        close == mt.max - mt.second <= Tol /\ ~exact
                        okc == Ev.tr \in Trans /\ Allowed(r, Ev.meet, Ev.tr)
                        ch == Children(r, Ev.meet, Ev.tr)
                    IN /\ cur' = IF okc THEN [cur EXCEPT !.bnd = Put(Put(@, ch[1], <<cur.bnd[r][1], LeftB0(Ev.tr)>>), ch[2], <<RightF0(Ev.tr), cur.bnd[r][2]>>),
                                                         !.cells = @ \cup Cells(r, Ev.meet, Ev.tr), !.nsplit = @ + 1]
                                 ELSE cur
                       /\ IF same
                          THEN IF "sc" \in DOMAIN Ev /\ exact /\ Ev.sc # mt.max
                               THEN PrintT(<<"KVINFO", l, cur.cx.kind, r, "score code", Ev.sc, "model", mt.max>>) /\ Report({"Progressive.score-of-the-split-differs-from-the-model"})
                               ELSE viol' = {}
                          ELSE IF close THEN PrintT(<<"KVNOTE", l, "progressive", "too-close-to-call-in-float">>) /\ viol' = {}
                          ELSE /\ PrintT(<<"KVINFO", l, cur.cx.kind, r, "code", Ev.meet, Ev.tr, "model", mt.c, mt.tr, "margin", mt.max - mt.second>>)
                               /\ Report({"Progressive.meet-or-transition-differs-from-the-model"})

TMergeEnd ==
    /\ Is("MergeEnd") /\ l' = l + 1 /\ UNCHANGED <<inp, par>>
    /\ cur' = None
    /\ IF cur.k # "merge" \/ cur.c # Ev.c
       THEN UNCHANGED nodes /\ viol' = {} /\ gaps' = IF cur.k = "skipped" THEN [k |-> "none"] ELSE gaps
       ELSE LET o == Orient(cur.A, cur.B)
                R == IF o.rows = "a" THEN cur.A ELSE cur.B
                C == IF o.rows = "a" THEN cur.B ELSE cur.A
                wf == WellFormedCells(R.len, C.len, cur.cells)
                p == PathAB(cur.A, cur.B, cur.cells)
            IN IF ~wf THEN UNCHANGED nodes /\ gaps' = [k |-> "none"] /\ Report({"Progressive.cells-not-well-formed"})
               ELSE /\ nodes' = Put(nodes, Ev.c, Joined(Scaled(par), cur.A, cur.B, p) @@ [leaves |-> cur.A.leaves \cup cur.B.leaves])
                    \* the members of both groups take the new gap columns (Weave: make_seq / update_gaps)
                    /\ gaps' = IF gaps.k # "ok" THEN gaps
                               ELSE LET va == W!GapVec(p, "a", cur.A.len)
                                        vb == W!GapVec(p, "b", cur.B.len)
                                    IN [gaps EXCEPT !.g = [s \in DOMAIN gaps.g |-> IF s \in cur.A.leaves THEN W!UpdateGaps(gaps.g[s], va)
                                                                                    ELSE IF s \in cur.B.leaves THEN W!UpdateGaps(gaps.g[s], vb) ELSE gaps.g[s]]]
                    /\ PrintT(<<"KVMERGE", l, cur.cx.kind, cur.nsplit>>)
                    /\ Report(IF Len(p) # Ev.plen THEN {"Progressive.path-length-differs"} ELSE {})

(* the rows kalign returns are the leaves rendered with the gap vectors accumulated over the merges *)
TOut ==
    /\ Is("Obj") /\ Ev.tag = "out" /\ l' = l + 1 /\ UNCHANGED <<inp, par, nodes, cur>>
    /\ gaps' = [k |-> "none"]
    /\ IF gaps.k # "ok" \/ Ev.null = 1 \/ Ev.final # 1 \/ Ev.rows # 1 \/ Len(Ev.seqs) # Len(inp)
       THEN viol' = {} /\ PrintT(<<"KVSKIP", l, "progressive", "rows-not-compared">>)
       ELSE /\ PrintT(<<"KVROWS", l, Len(inp)>>)
            /\ Report(IF \E s \in DOMAIN gaps.g : W!Render(inp[gaps.ranks[s + 1] + 1], gaps.g[s]) # Ev.seqs[gaps.ranks[s + 1] + 1]
                      THEN {"Progressive.returned-rows-differ-from-the-rendered-merges"} ELSE {})

TOther ==
    /\ l <= Len(Trace)
    /\ ~(Ev.e \in {"Params", "Sorted", "MergeBegin", "HSplit", "MergeEnd"} \/ (Ev.e = "Obj" /\ Ev.tag \in {"in", "out"}))
    /\ l' = l + 1 /\ UNCHANGED <<inp, par, nodes, cur, gaps>> /\ viol' = {}
Next == TIn \/ TParams \/ TSorted \/ TMergeBegin \/ THSplit \/ TMergeEnd \/ TOut \/ TOther
Spec == Init /\ [][Next]_vars
Accepted == TLCGet("stats").diameter - 1 = Len(Trace)
=============================================================================
