----------------------------- MODULE ProtoTrace -----------------------------
(***************************************************************************)
(* C05, outcome protocol of the library on arbitrary input files.           *)
(* Per file: read -> (dump "in") -> run -> (dump "out") -> write -> free.   *)
(*  - a call either fails (rc # 0) or succeeds with a well-formed result;   *)
(*  - a successful read yields a well-formed object (or no object at all);  *)
(*  - a successful run yields a valid alignment of the sequences that were  *)
(*    read (property C01 on what the reader produced);                      *)
(*  - a run on "no object" or on fewer than two non-empty sequences fails.  *)
(* Crashes, hangs and sanitizer reports are events no action explains: the  *)
(* trace of that file then ends without the closing Note ("done").          *)
(***************************************************************************)
EXTENDS Weave, Ascii, Json, IOUtils
Trace == ndJsonDeserialize(IOEnv.TRACE)
VARIABLES l, fid, inp, runrc, viol
vars == <<l, fid, inp, runrc, viol>>
Ev == Trace[l]
Is(e) == l <= Len(Trace) /\ Trace[l].e = e
Init == l = 1 /\ fid = "none" /\ inp = [k |-> "none"] /\ runrc = -1 /\ viol = {}
Report(v) == viol' = v /\ IF v # {} THEN PrintT(<<"KVFAIL", l, fid, v>>) ELSE TRUE

TNote == /\ Is("Note") /\ l' = l + 1 /\ fid' = Ev.text /\ inp' = [k |-> "none"] /\ runrc' = -1 /\ Report({})

WellFormedObj(ev) ==
    /\ ev.n >= 0
    /\ Len(ev.names) = ev.n /\ Len(ev.seqs) = ev.n /\ Len(ev.gaps) = ev.n /\ Len(ev.lens) = ev.n
    /\ \A i \in 1..ev.n :
         /\ ev.lens[i] >= 0
         /\ ev.rows = 1 \/ Len(ev.seqs[i]) = ev.lens[i]
         /\ Len(ev.gaps[i]) = ev.lens[i] + 1
         /\ \A k \in 1..Len(ev.gaps[i]) : ev.gaps[i][k] >= 0
         /\ ev.rows = 1 \/ \A k \in 1..Len(ev.seqs[i]) : IsAlpha(ev.seqs[i][k])
    /\ ev.biotype \in {0, 1, 2}

TIn ==
    /\ Is("Obj") /\ Ev.tag = "in"
    /\ l' = l + 1
    /\ UNCHANGED <<fid, runrc>>
    /\ IF Ev.null = 1 THEN inp' = [k |-> "null"] /\ Report({})
       ELSE /\ inp' = [k |-> "obj", names |-> Ev.names, seqs |-> Ev.seqs, n |-> Ev.n]
            /\ Report(IF WellFormedObj(Ev) THEN {} ELSE {"C05:malformed-object-after-successful-read"})

TRunRet ==
    /\ Is("Ret") /\ Ev.op = "run"
    /\ l' = l + 1
    /\ runrc' = Ev.rc
    /\ UNCHANGED <<fid, inp>>
    /\ LET nonempty == IF inp.k = "obj" THEN Cardinality({i \in 1..Len(inp.seqs) : Len(inp.seqs[i]) > 0}) ELSE 0
       IN Report(IF Ev.rc = 0 /\ nonempty < 2 THEN {"C05:run-succeeds-without-two-sequences"} ELSE {})

OutChecks(names, rows) ==
    LET idx == SelectSeq([i \in 1..Len(inp.seqs) |-> i], LAMBDA i : Len(inp.seqs[i]) > 0)
        n == Len(idx)
    IN IF Len(rows) # n THEN {"C05:success-but-row-count-wrong"} ELSE
         (IF ~EqualLen(rows) THEN {"C05:success-but-rows-of-unequal-length"} ELSE {})
         \cup (IF \E k \in 1..n : StripDash(rows[k]) # inp.seqs[idx[k]] THEN {"C05:success-but-residues-changed"} ELSE {})
         \cup (IF \E k \in 1..n : names[k] # inp.names[idx[k]] THEN {"C05:success-but-names-changed"} ELSE {})

TOut ==
    /\ Is("Obj") /\ Ev.tag = "out"
    /\ l' = l + 1
    /\ UNCHANGED <<fid, inp, runrc>>
    /\ Report(IF runrc # 0 \/ inp.k # "obj" THEN {}
              ELSE IF Ev.null = 1 \/ Ev.final # 1 \/ Ev.rows # 1 THEN {"C05:success-without-alignment"}
              ELSE OutChecks(Ev.names, Ev.seqs))

TWriteRet ==
    /\ Is("Ret") /\ Ev.op = "write"
    /\ l' = l + 1
    /\ UNCHANGED <<fid, inp, runrc>>
    /\ Report(IF Ev.rc = 0 /\ runrc # 0 THEN {"C05:write-succeeds-without-alignment"} ELSE {})

TOther ==
    /\ l <= Len(Trace)
    /\ ~(Ev.e = "Note" \/ (Ev.e = "Obj" /\ Ev.tag \in {"in", "out"}) \/ (Ev.e = "Ret" /\ Ev.op \in {"run", "write"}))
    /\ l' = l + 1 /\ UNCHANGED <<fid, inp, runrc>> /\ Report({})
Next == TNote \/ TIn \/ TRunRet \/ TOut \/ TWriteRet \/ TOther
Spec == Init /\ [][Next]_vars
Accepted == TLCGet("stats").diameter - 1 = Len(Trace)
=============================================================================
