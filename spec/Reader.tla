------------------------------- MODULE Reader -------------------------------
(***************************************************************************)
(* The three input readers of kalign (msa_io.c) as functions from a file,   *)
(* given as a sequence of lines (each a sequence of byte values), to an     *)
(* outcome:                                                                 *)
(*    [k |-> "fail"]                     kalign_read_input returns FAIL     *)
(*    [k |-> "empty"]                    OK, but no object (nothing read)   *)
(*    [k |-> "ok", names, seqs, gaps]    OK with an object                  *)
(* Lines are cut at their first control character.  The format is sniffed   *)
(* from the first 100 lines: a line starting with '>' hints FASTA; the      *)
(* words "!!AA_MULTIPLE_ALIGNMENT", "!!NA_MULTIPLE_ALIGNMENT", "MSF:" hint  *)
(* MSF; "multiple sequence alignment", "CLUSTAL W", "CLUSTAL O" hint        *)
(* Clustal; with several hints Clustal wins over MSF over FASTA.            *)
(* In every reader letters are residues, punctuation characters are gap     *)
(* symbols (counted in front of the next residue), everything else is       *)
(* ignored.  Properties served: C04, C05, C06 (and C13 through the object). *)
(***************************************************************************)
EXTENDS Integers, Sequences, SequencesExt, FiniteSets, Ascii, TLC

Cut(line) ==
    LET idx == SelectSeq([i \in 1..Len(line) |-> i], LAMBDA i : IsCntrl(line[i]))
    IN IF idx = <<>> THEN line ELSE SubSeq(line, 1, idx[1] - 1)

(* does `pat` occur in `s` *)
Occurs(pat, s) == \E k \in 0..(Len(s) - Len(pat)) : SubSeq(s, k + 1, k + Len(pat)) = pat

W_AA == <<33, 33, 65, 65, 95, 77, 85, 76, 84, 73, 80, 76, 69, 95, 65, 76, 73, 71, 78, 77, 69, 78, 84>>
W_NA == <<33, 33, 78, 65, 95, 77, 85, 76, 84, 73, 80, 76, 69, 95, 65, 76, 73, 71, 78, 77, 69, 78, 84>>
W_MSF == <<77, 83, 70, 58>>
W_MSA == <<109, 117, 108, 116, 105, 112, 108, 101, 32, 115, 101, 113, 117, 101, 110, 99, 101, 32, 97, 108, 105, 103, 110, 109, 101, 110, 116>>
W_CLW == <<67, 76, 85, 83, 84, 65, 76, 32, 87>>
W_CLO == <<67, 76, 85, 83, 84, 65, 76, 32, 79>>
W_NAME == <<78, 97, 109, 101, 58>>
W_LEN == <<76, 101, 110, 58>>
W_SEP == <<47, 47>>

Sniff(lines) ==
    LET first == SubSeq(lines, 1, IF Len(lines) < 100 THEN Len(lines) ELSE 100)
        fa == \E i \in 1..Len(first) : Len(first[i]) > 0 /\ first[i][1] = 62
        msf == \E i \in 1..Len(first) : Occurs(W_AA, first[i]) \/ Occurs(W_NA, first[i]) \/ Occurs(W_MSF, first[i])
        clu == \E i \in 1..Len(first) : Occurs(W_MSA, first[i]) \/ Occurs(W_CLW, first[i]) \/ Occurs(W_CLO, first[i])
    IN IF clu THEN "clu" ELSE IF msf THEN "msf" ELSE IF fa THEN "fasta" ELSE "none"

(* append the residues / gap symbols of a text to a record [name, seq, gaps] (gaps has Len(seq)+1 entries) *)
Feed(rec, text) ==
    FoldLeft(LAMBDA r, c :
                IF IsAlpha(c) THEN [r EXCEPT !.seq = Append(@, c), !.gaps = Append(@, 0)]
                ELSE IF IsPunct(c) THEN [r EXCEPT !.gaps[Len(r.gaps)] = @ + 1]
                ELSE r,
             rec, text)

NewRec(name) == [name |-> name, seq |-> <<>>, gaps |-> <<0>>]

NameToken(text, maxlen) ==
    \* characters up to the first blank (at most maxlen)
    LET idx == SelectSeq([i \in 1..Len(text) |-> i], LAMBDA i : IsSpace(text[i]))
        n == IF idx = <<>> THEN Len(text) ELSE idx[1] - 1
    IN SubSeq(text, 1, IF n > maxlen THEN maxlen ELSE n)

ReadFasta(lines) ==
    LET step(acc, line) ==
            IF acc.fail THEN acc
            ELSE IF Len(line) > 0 /\ line[1] = 62 THEN [acc EXCEPT !.recs = Append(@, NewRec(SubSeq(line, 2, Len(line))))]
            ELSE IF Len(acc.recs) = 0
                 THEN (IF \E i \in 1..Len(line) : IsAlpha(line[i]) \/ IsPunct(line[i]) THEN [acc EXCEPT !.fail = TRUE] ELSE acc)
                 ELSE [acc EXCEPT !.recs[Len(acc.recs)] = Feed(@, line)]
    IN FoldLeft(step, [recs |-> <<>>, fail |-> FALSE], lines)

(* block formats: rows are matched to sequences by their position inside the block *)
ReadBlocks(lines, recs0, parse_names) ==
    LET step(acc, line) ==
            IF Len(line) = 0 THEN [acc EXCEPT !.active = 0]
            ELSE IF IsSpace(line[1]) THEN acc
            ELSE LET k == acc.active + 1
                     have == k <= Len(acc.recs)
                 IN IF parse_names
                    THEN LET sp == SelectSeq([i \in 1..Len(line) |-> i], LAMBDA i : IsSpace(line[i]))
                             \* the row name ends at the first blank (or after 255 characters); a row without any blank has no
                             \* name at all and is read as residues from its first character
                             nm == IF sp # <<>> /\ sp[1] <= 256 THEN SubSeq(line, 1, sp[1] - 1)
                                   ELSE IF Len(line) >= 256 THEN SubSeq(line, 1, 255) ELSE <<>>
                             rest == IF sp # <<>> /\ sp[1] <= 256 THEN SubSeq(line, sp[1], Len(line))
                                     ELSE IF Len(line) >= 256 THEN SubSeq(line, 256, Len(line)) ELSE line
                             base == IF have THEN [acc.recs[k] EXCEPT !.name = nm] ELSE NewRec(nm)
                             upd == Feed(base, rest)
                         IN [recs |-> IF have THEN [acc.recs EXCEPT ![k] = upd] ELSE Append(acc.recs, upd), active |-> k, extra |-> acc.extra]
                    ELSE IF have
                         THEN LET skip == Len(acc.recs[k].name)
                                  rest == SubSeq(line, skip + 1, Len(line))
                              IN [acc EXCEPT !.recs[k] = Feed(@, rest), !.active = k]
                         ELSE [acc EXCEPT !.active = k, !.extra = TRUE]     \* a data row beyond the declared names
    IN FoldLeft(step, [recs |-> recs0, active |-> 0, extra |-> FALSE], lines)

ReadClu(lines) == ReadBlocks(SubSeq(lines, 2, Len(lines)), <<>>, TRUE)

MsfNames(header) ==
    LET step(acc, line) ==
            IF Occurs(W_NAME, line) /\ Occurs(W_LEN, line)
            THEN LET k == CHOOSE j \in 0..(Len(line) - 5) : SubSeq(line, j + 1, j + 5) = W_NAME /\ \A i \in 0..(j - 1) : SubSeq(line, i + 1, i + 5) # W_NAME
                     after == SubSeq(line, k + 6, Len(line))
                     lead == SelectSeq([i \in 1..Len(after) |-> i], LAMBDA i : ~IsSpace(after[i]))
                     txt == IF lead = <<>> THEN <<>> ELSE SubSeq(after, lead[1], Len(after))
                 IN Append(acc, NewRec(NameToken(txt, 255)))
            ELSE acc
    IN FoldLeft(step, <<>>, header)

ReadMsf(lines) ==
    LET seps == SelectSeq([i \in 1..Len(lines) |-> i], LAMBDA i : Occurs(W_SEP, lines[i]))
        cutat == IF seps = <<>> THEN Len(lines) + 1 ELSE seps[1]
        names == MsfNames(SubSeq(lines, 1, cutat - 1))
    IN ReadBlocks(SubSeq(lines, cutat + 1, Len(lines)), names, FALSE)

Outcome(rawlines) ==
    LET lines == [i \in 1..Len(rawlines) |-> Cut(rawlines[i])]
        fmt == Sniff(lines)
        recs == IF fmt = "fasta" THEN ReadFasta(lines).recs ELSE IF fmt = "clu" THEN ReadClu(lines).recs ELSE IF fmt = "msf" THEN ReadMsf(lines).recs ELSE <<>>
    IN IF Len(lines) = 0 \/ Len(lines[1]) = 1 THEN [k |-> "empty"]     \* the "was anything read" test looks at the first line only
       ELSE IF fmt = "none" THEN [k |-> "empty"]
       ELSE IF fmt = "fasta" /\ ReadFasta(lines).fail THEN [k |-> "fail"]
       ELSE IF Len(recs) = 0 THEN [k |-> "fail"]
       ELSE [k |-> "ok", names |-> [i \in 1..Len(recs) |-> recs[i].name], seqs |-> [i \in 1..Len(recs) |-> recs[i].seq],
             gaps |-> [i \in 1..Len(recs) |-> recs[i].gaps]]
(* what kalign concludes about the input being an alignment (msa_op.c detect_aligned): 1 unaligned, 2 aligned, 3 cannot tell.
   Gap symbols anywhere and one total row length: aligned; gap symbols but different row lengths, or no gap symbol and
   one length: cannot tell; no gap symbol and different lengths: unaligned. *)
SumSeq(v) == FoldLeft(LAMBDA acc, x : acc + x, 0, v)
AlignedStatus(out) ==
    LET n == Len(out.seqs)
        tot(i) == Len(out.seqs[i]) + SumSeq(out.gaps[i])
        g == FoldLeft(LAMBDA acc, i : acc + SumSeq(out.gaps[i]), 0, [i \in 1..n |-> i])
        same == \A i, j \in 1..n : tot(i) = tot(j)
    IN IF g > 0 THEN (IF same THEN 2 ELSE 3) ELSE (IF same THEN 3 ELSE 1)
=============================================================================
