----------------------------- MODULE ReaderTrace -----------------------------
(* the object kalign_read_input builds for a file (File event: the generator's lines) equals Reader!Outcome, field by field *)
EXTENDS Reader, Json, IOUtils
Trace == ndJsonDeserialize(IOEnv.TRACE)
VARIABLES l, cur, rc, viol
vars == <<l, cur, rc, viol>>
Ev == Trace[l]
Is(e) == l <= Len(Trace) /\ Trace[l].e = e
Init == l = 1 /\ cur = [k |-> "none", id |-> "none"] /\ rc = -1 /\ viol = {}
Report(v) == viol' = v /\ IF v # {} THEN PrintT(<<"KVDIV", l, cur.id, v>>) ELSE TRUE
TFile == Is("File") /\ l' = l + 1 /\ cur' = [k |-> "file", id |-> Ev.id, want |-> Outcome(Ev.lines)] /\ rc' = -1 /\ viol' = {}
TRead == Is("Ret") /\ Ev.op = "read" /\ l' = l + 1 /\ rc' = Ev.rc /\ UNCHANGED cur
         /\ Report(IF cur.k = "file" /\ ((cur.want.k = "fail") # (Ev.rc # 0)) THEN {"Reader.success-or-failure"} ELSE {})
Trunc(nm) == IF Len(nm) > 256 THEN SubSeq(nm, 1, 256) ELSE nm
TIn ==
    /\ Is("Obj") /\ Ev.tag = "in" /\ cur.k = "file"
    /\ l' = l + 1 /\ cur' = [cur EXCEPT !.k = "done"] /\ UNCHANGED rc
    /\ Report(IF rc # 0 THEN {}
              ELSE IF cur.want.k = "empty" THEN (IF Ev.null = 1 THEN {} ELSE {"Reader.object-where-nothing-should-be-read"})
              ELSE IF cur.want.k = "fail" THEN {}
              ELSE IF Ev.null = 1 THEN {"Reader.nothing-read"}
              ELSE (IF Len(Ev.names) # Len(cur.want.names) THEN {"Reader.record-count"} ELSE
                      (IF [i \in 1..Len(Ev.names) |-> Ev.names[i]] # [i \in 1..Len(cur.want.names) |-> Trunc(cur.want.names[i])] THEN {"Reader.names"} ELSE {})
                      \cup (IF Ev.seqs # cur.want.seqs THEN {"Reader.residues"} ELSE {})
                      \cup (IF Ev.gaps # cur.want.gaps THEN {"Reader.gaps"} ELSE {})
                      \cup (IF "status" \in DOMAIN Ev /\ Ev.gaps = cur.want.gaps /\ Ev.seqs = cur.want.seqs /\ Ev.status # AlignedStatus(cur.want)
                            THEN {"Reader.aligned-status"} ELSE {})))
TOther == /\ l <= Len(Trace) /\ ~(Ev.e = "File" \/ (Ev.e = "Ret" /\ Ev.op = "read") \/ (Ev.e = "Obj" /\ Ev.tag = "in" /\ cur.k = "file"))
          /\ l' = l + 1 /\ UNCHANGED <<cur, rc>> /\ viol' = {}
Next == TFile \/ TRead \/ TIn \/ TOther
Spec == Init /\ [][Next]_vars
Accepted == TLCGet("stats").diameter - 1 = Len(Trace)
=============================================================================
