------------------------------- MODULE Relate -------------------------------
(***************************************************************************)
(* Relations between the results of two executions (metamorphic             *)
(* properties).  A result is the object after a run: names, rows (ASCII).   *)
(*   SameRows      C02 C04 C09 C16: identical rows under identical names    *)
(*   SamePattern   C14: identical gap pattern, letters may differ           *)
(*   SameColumns   C03: same residues share a column, rows matched by name  *)
(*   NoDash        C08: no gap character anywhere                           *)
(*   DupRows       C12: equal ungapped sequences have equal rows            *)
(***************************************************************************)
EXTENDS Weave, Alphabet

Pattern(row) == [k \in 1..Len(row) |-> IF row[k] = Dash THEN 0 ELSE 1]

SameRows(r1, r2) == r1.names = r2.names /\ r1.seqs = r2.seqs

SamePattern(r1, r2) ==
    /\ Len(r1.seqs) = Len(r2.seqs)
    /\ \A i \in 1..Len(r1.seqs) : Pattern(r1.seqs[i]) = Pattern(r2.seqs[i])

(* letters of the output are the letters of the input (case and spelling kept) *)
LettersKept(input, out) ==
    /\ Len(input) = Len(out)
    /\ \A i \in 1..Len(out) : StripDash(out[i]) = input[i]

(* the column signature of an alignment: for every column the set of <<name, residue index>> *)
ColumnSets(r) ==
    LET idx == [i \in 1..Len(r.seqs) |-> ResidueIndex(r.seqs[i])]
        w == IF Len(r.seqs) = 0 THEN 0 ELSE Len(r.seqs[1])
    IN { {<<r.names[i], idx[i][k]>> : i \in {j \in 1..Len(r.seqs) : idx[j][k] > 0}} : k \in 1..w }

SameColumns(r1, r2) == EqualLen(r1.seqs) /\ EqualLen(r2.seqs) /\ ColumnSets(r1) = ColumnSets(r2)

NoDash(r) == \A i \in 1..Len(r.seqs) : \A k \in 1..Len(r.seqs[i]) : r.seqs[i][k] # Dash

(* C12 premise: for every sequence d that occurs more than once and every other sequence x (x # d),
   neither contains the other as a substring, on the letters as the guide tree sees them
   (5-letter nucleotide codes, or the 13 amino-acid similarity classes) *)
Codes(seq, alpha) == [k \in 1..Len(seq) |-> Code(alpha, seq[k])]
HasSub(x, d) == Len(d) <= Len(x) /\ \E k \in 0..(Len(x) - Len(d)) : SubSeq(x, k + 1, k + Len(d)) = d
DupPremise(seqs, alpha) ==
    LET n == Len(seqs)
        cs == [i \in 1..n |-> Codes(seqs[i], alpha)]
        dup == {i \in 1..n : \E j \in 1..n : j # i /\ seqs[j] = seqs[i]}
    IN \A i \in dup : \A j \in 1..n : seqs[j] # seqs[i] => (~HasSub(cs[j], cs[i]) /\ ~HasSub(cs[i], cs[j]))
HasDup(seqs) == \E i, j \in 1..Len(seqs) : i # j /\ seqs[i] = seqs[j]

DupRows(r) == \A i, j \in 1..Len(r.seqs) : StripDash(r.seqs[i]) = StripDash(r.seqs[j]) => r.seqs[i] = r.seqs[j]
=============================================================================
