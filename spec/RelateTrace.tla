---------------------------- MODULE RelateTrace ----------------------------
(***************************************************************************)
(* Product traces: a Group event opens a group of executions that must be   *)
(* related by Group.rel; every Obj(tag "out") / Arr event that follows is a *)
(* member; the first member is the reference.  Group.prop names the         *)
(* property the relation belongs to (it becomes the prefix of the verdict). *)
(* Fail events (a run that failed) are members too: a group in which some   *)
(* members fail and others succeed violates every relation.                 *)
(***************************************************************************)
EXTENDS Relate, Json, IOUtils

Trace == ndJsonDeserialize(IOEnv.TRACE)
VARIABLES l, grp, ref, inp, inbio, viol
vars == <<l, grp, ref, inp, inbio, viol>>
Ev == Trace[l]
Is(e) == l <= Len(Trace) /\ Trace[l].e = e
None == [k |-> "none"]

Init == l = 1 /\ grp = [gid |-> "none", rel |-> "none", prop |-> "none"] /\ ref = None /\ inp = <<>> /\ inbio = 2 /\ viol = {}

Report(v) ==
    /\ viol' = v
    /\ IF v # {} THEN PrintT(<<"KVFAIL", l, grp.gid, v>>) ELSE TRUE

TGroup ==
    /\ Is("Group")
    /\ l' = l + 1
    /\ grp' = [gid |-> Ev.gid, rel |-> Ev.rel, prop |-> Ev.prop]
    /\ ref' = None
    /\ inp' = <<>>
    /\ inbio' = 2
    /\ Report({})

Result(ev) == [k |-> "ok", names |-> ev.names, seqs |-> ev.seqs]

Check(r) ==
    LET tag(x) == {grp.prop \o ":" \o x}
    IN IF grp.rel = "nodash" THEN (IF r.k # "ok" THEN tag("run-failed") ELSE IF ~NoDash(r) THEN tag("gap-in-identical-sequences") ELSE {})
       ELSE IF grp.rel = "duprows" THEN (IF r.k # "ok" THEN tag("run-failed") ELSE IF ~DupRows(r) THEN tag("duplicates-differ") ELSE {})
       ELSE IF ref.k = "none" THEN {}
       ELSE IF ref.k # r.k THEN tag("one-run-fails-the-other-succeeds")
       ELSE IF r.k # "ok" THEN {}
       ELSE IF grp.rel = "rows" THEN (IF ~SameRows(ref, r) THEN tag("results-differ") ELSE {})
       ELSE IF grp.rel = "pattern" THEN (IF ~SamePattern(ref, r) THEN tag("gap-pattern-differs") ELSE {})
       ELSE IF grp.rel = "columns" THEN (IF ~SameColumns(ref, r) THEN tag("columns-differ") ELSE {})
       ELSE {"unknown-relation"}

(* C12: the premise is evaluated by the specification on the object as read; a case that does not meet it is skipped, not judged *)
PremiseOk == grp.rel # "duprows" \/ (inp # <<>> /\ HasDup(inp) /\ Len(inp) < 100 /\ DupPremise(inp, IF inbio = 1 THEN A_DNA ELSE A_RED13))

TMember ==
    /\ Is("Obj") /\ Ev.tag = "out"
    /\ l' = l + 1
    /\ LET r == IF Ev.null = 0 /\ Ev.final = 1 /\ Ev.rows = 1 THEN Result(Ev) ELSE [k |-> "fail"]
       IN /\ ref' = IF ref.k = "none" THEN r ELSE ref
          /\ IF ~PremiseOk THEN PrintT(<<"KVSKIP", l, grp.gid, "premise">>) /\ Report({}) ELSE
             Report(Check(r) \cup (IF r.k = "ok" /\ inp # <<>> /\ ~LettersKept(inp, r.seqs) THEN {grp.prop \o ":output-letters-differ-from-input"} ELSE {}))
    /\ inp' = <<>>
    /\ UNCHANGED <<grp, inbio>>

(* the object as read: the input letters of the member that follows *)
TIn ==
    /\ Is("Obj") /\ Ev.tag = "in"
    /\ l' = l + 1
    /\ inp' = IF Ev.null = 0 THEN Ev.seqs ELSE <<>>
    /\ inbio' = IF Ev.null = 0 THEN Ev.biotype ELSE 2
    /\ UNCHANGED <<grp, ref>>
    /\ Report({})

(* the array API of the member that follows (C14: output letters are the input letters) *)
TArr ==
    /\ Is("Arr")
    /\ l' = l + 1
    /\ LET r == IF Ev.rc = 0 THEN [k |-> "ok", names |-> [i \in 1..Len(Ev.rows) |-> <<i>>], seqs |-> Ev.rows] ELSE [k |-> "fail"]
       IN /\ ref' = IF ref.k = "none" THEN r ELSE ref
          /\ Report(Check(r))
    /\ UNCHANGED <<grp, inp, inbio>>

TOther ==
    /\ l <= Len(Trace)
    /\ ~(Ev.e = "Group" \/ (Ev.e = "Obj" /\ Ev.tag \in {"in", "out"}) \/ Ev.e = "Arr")
    /\ l' = l + 1
    /\ UNCHANGED <<grp, ref, inp, inbio>>
    /\ Report({})

Next == TGroup \/ TMember \/ TIn \/ TArr \/ TOther
Spec == Init /\ [][Next]_vars
NoViolation == viol = {}
Accepted == TLCGet("stats").diameter - 1 = Len(Trace)
=============================================================================
