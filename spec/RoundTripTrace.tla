--------------------------- MODULE RoundTripTrace ---------------------------
(***************************************************************************)
(* C06: an alignment written by kalign and read back by kalign is the same  *)
(* alignment, for every format and every ordered pair of formats.           *)
(*   Obj "orig"  the alignment A (finalised object: names, gapped rows)     *)
(*   Obj "back"  an object obtained by reading a file that kalign wrote     *)
(*               from A or from a copy of A that itself was read back       *)
(* A read object carries residues and gap vectors; Weave!Render rebuilds    *)
(* its rows.  Equality is on row count, order, names, residues (case kept)  *)
(* and gap positions.                                                       *)
(***************************************************************************)
EXTENDS Weave, Json, IOUtils
Trace == ndJsonDeserialize(IOEnv.TRACE)
VARIABLES l, sid, orig, viol
vars == <<l, sid, orig, viol>>
Ev == Trace[l]
Is(e) == l <= Len(Trace) /\ Trace[l].e = e
Init == l = 1 /\ sid = "none" /\ orig = [k |-> "none"] /\ viol = {}
Report(v) == viol' = v /\ IF v # {} THEN PrintT(<<"KVFAIL", l, sid, v>>) ELSE TRUE

TNote == Is("Note") /\ l' = l + 1 /\ sid' = Ev.text /\ UNCHANGED orig /\ Report({})
TOrig ==
    /\ Is("Obj") /\ Ev.tag = "orig"
    /\ l' = l + 1
    /\ orig' = IF Ev.null = 0 /\ Ev.rows = 1 THEN [k |-> "ok", names |-> Ev.names, rows |-> Ev.seqs] ELSE [k |-> "none"]
    /\ UNCHANGED sid
    /\ Report({})

RowsOf(ev) ==
    IF ev.rows = 1 THEN ev.seqs
    ELSE [i \in 1..Len(ev.seqs) |-> IF Len(ev.gaps[i]) = Len(ev.seqs[i]) + 1 THEN Render(ev.seqs[i], ev.gaps[i]) ELSE <<>>]

TBack ==
    /\ Is("Obj") /\ Ev.tag = "back"
    /\ l' = l + 1
    /\ UNCHANGED <<sid, orig>>
    /\ Report(IF orig.k # "ok" THEN {}
              ELSE IF Ev.null = 1 THEN {"C06:nothing-read-back"}
              ELSE (IF Len(Ev.seqs) # Len(orig.rows) THEN {"C06:row-count"} ELSE
                      (IF Ev.names # orig.names THEN {"C06:names-or-order"} ELSE {})
                      \cup (IF RowsOf(Ev) # orig.rows THEN {"C06:residues-or-gaps"} ELSE {})))

TOther ==
    /\ l <= Len(Trace) /\ ~(Ev.e = "Note" \/ (Ev.e = "Obj" /\ Ev.tag \in {"orig", "back"}))
    /\ l' = l + 1 /\ UNCHANGED <<sid, orig>> /\ Report({})
Next == TNote \/ TOrig \/ TBack \/ TOther
Spec == Init /\ [][Next]_vars
NoViolation == viol = {}
Accepted == TLCGet("stats").diameter - 1 = Len(Trace)
=============================================================================
