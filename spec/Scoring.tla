------------------------------ MODULE Scoring ------------------------------
(***************************************************************************)
(* kalign's pairwise scoring model (aln_seqseq.c, aln_seqprofile.c,         *)
(* aln_profileprofile.c, aln_setup.c), in integer units of 0.1:             *)
(*  - three states: M (a residue of each side), A (gap in a: a column of b  *)
(*    only), B (gap in b); A and B are never adjacent;                      *)
(*  - an internal gap run of k columns costs 2*gpo + (k-1)*gpe (opening AND *)
(*    closing cost gpo);                                                    *)
(*  - a terminal run (touching either end of the alignment) of k columns    *)
(*    costs k*tgpe + E, where the code charges E in {0, gpo, 2*gpo}         *)
(*    depending on where the Hirschberg recursion cuts (forward kernel,     *)
(*    backward kernel and meetup treat the run's ends differently).         *)
(*    So a score is an interval: Lo uses E = 2*gpo, Hi uses E = 0;          *)
(*  - for groups of ka and kb identical rows every term scales by ka*kb.    *)
(* An alignment is a path over {0,1,2} as in Weave (1 = gap in a).          *)
(* UniqueOptimum: every alignment other than P scores, even at its best     *)
(* (Hi), less than P at its worst (Lo) minus a slack.  It is decided with   *)
(* forward / backward through-scores: an alignment other than P visits a    *)
(* cell-state P does not visit.  Properties served: C07, C08.               *)
(***************************************************************************)
EXTENDS Integers, Sequences, SequencesExt, FiniteSets, TLC

NEG == -1000000000
Max2(x, y) == IF x > y THEN x ELSE y
Max3(x, y, z) == Max2(x, Max2(y, z))
Plus(x, d) == IF x <= NEG \div 2 THEN NEG ELSE x + d   \* keeps minus infinity absorbing

(* par = [subm |-> 529 scores (23 x 23, row major), gpo, gpe, tgpe] ; residues are codes 0..22 *)
Sub(par, x, y) == par.subm[x * 23 + y + 1]

-----------------------------------------------------------------------------
(* score of an explicit alignment; variant "lo" / "hi" *)
Runs(p) ==
    \* maximal runs of equal codes: sequence of [c |-> code, k |-> length]
    LET step(acc, c) ==
            IF Len(acc) > 0 /\ acc[Len(acc)].c = c
            THEN [acc EXCEPT ![Len(acc)].k = @ + 1]
            ELSE Append(acc, [c |-> c, k |-> 1])
    IN FoldLeft(step, <<>>, p)

Allowed(p) ==
    LET r == Runs(p)
    IN \A i \in 1..(Len(r) - 1) : ~({r[i].c, r[i + 1].c} = {1, 2})

SubScore(par, a, b, p) ==
    LET step(acc, c) ==
            IF c = 0 THEN [s |-> acc.s + Sub(par, a[acc.i + 1], b[acc.j + 1]), i |-> acc.i + 1, j |-> acc.j + 1]
            ELSE IF c = 1 THEN [acc EXCEPT !.j = @ + 1]
            ELSE [acc EXCEPT !.i = @ + 1]
    IN FoldLeft(step, [s |-> 0, i |-> 0, j |-> 0], p).s

GapCost(par, p, variant) ==
    LET r == Runs(p)
        E == IF variant = "lo" THEN 2 * par.gpo ELSE 0
        cost(i) == IF r[i].c = 0 THEN 0
                   ELSE IF i = 1 \/ i = Len(r) THEN r[i].k * par.tgpe + E
                   ELSE 2 * par.gpo + (r[i].k - 1) * par.gpe
    IN FoldLeft(LAMBDA acc, i : acc + cost(i), 0, [i \in 1..Len(r) |-> i])

ScoreOf(par, a, b, p, variant) == SubScore(par, a, b, p) - GapCost(par, p, variant)

-----------------------------------------------------------------------------
(* forward pass of the Hi model, all rows kept.  F[i+1][j+1] = [m, a, b]: best Hi score of an alignment of
   a[1..i] with b[1..j] that ends in that state (the last gap run is not closed yet) *)
TermA(i, n) == i = 0 \/ i = n       \* a gap-in-a run while i residues of a are consumed touches an end
TermB(j, m) == j = 0 \/ j = m

Forward(par, a, b) ==
    LET n == Len(a)
        m == Len(b)
        firstA(i) == IF TermA(i, n) THEN par.tgpe ELSE par.gpo
        extA(i) == IF TermA(i, n) THEN par.tgpe ELSE par.gpe
        closeA(i) == IF TermA(i, n) THEN 0 ELSE par.gpo
        firstB(j) == IF TermB(j, m) THEN par.tgpe ELSE par.gpo
        extB(j) == IF TermB(j, m) THEN par.tgpe ELSE par.gpe
        closeB(j) == IF TermB(j, m) THEN 0 ELSE par.gpo
        row0 == [jj \in 1..(m + 1) |-> IF jj = 1 THEN [m |-> 0, a |-> NEG, b |-> NEG]
                                       ELSE [m |-> NEG, a |-> -((jj - 1) * par.tgpe), b |-> NEG]]
        nextrow(prev, i) ==
            \* cell j = 0
            LET c0 == [m |-> NEG, a |-> NEG, b |-> Max2(Plus(prev[1].m, -firstB(0)), Plus(prev[1].b, -extB(0)))]
                cell(acc, j) ==
                    LET left == acc[j]          \* (i, j-1)
                        up == prev[j + 1]       \* (i-1, j)
                        dg == prev[j]           \* (i-1, j-1)
                        vm == Plus(Max3(dg.m, Plus(dg.a, -closeA(i - 1)), Plus(dg.b, -closeB(j - 1))), Sub(par, a[i], b[j]))
                        va == Max2(Plus(left.m, -firstA(i)), Plus(left.a, -extA(i)))
                        vb == Max2(Plus(up.m, -firstB(j)), Plus(up.b, -extB(j)))
                    IN Append(acc, [m |-> vm, a |-> va, b |-> vb])
            IN FoldLeft(cell, <<c0>>, [j \in 1..m |-> j])
        step(acc, i) == Append(acc, nextrow(acc[i], i))
    IN FoldLeft(step, <<row0>>, [i \in 1..n |-> i])

Rev(s) == [i \in 1..Len(s) |-> s[Len(s) - i + 1]]

BestHi(par, a, b) ==
    LET F == Forward(par, a, b)
        e == F[Len(a) + 1][Len(b) + 1]
    IN Max3(e.m, e.a, e.b)

(* through-score of cell-state (i, j, s): best Hi score of an alignment that visits it *)
Through(F, R, par, a, b, i, j, s) ==
    LET n == Len(a)
        m == Len(b)
    IN IF s = "m" THEN (IF i >= 1 /\ j >= 1 THEN Plus(Plus(F[i + 1][j + 1].m, R[n - i + 2][m - j + 2].m), -Sub(par, a[i], b[j])) ELSE NEG)
       ELSE IF s = "a" THEN (IF j >= 1 THEN Plus(Plus(F[i + 1][j + 1].a, R[n - i + 1][m - j + 2].a), IF TermA(i, n) THEN par.tgpe ELSE 0) ELSE NEG)
       ELSE (IF i >= 1 THEN Plus(Plus(F[i + 1][j + 1].b, R[n - i + 2][m - j + 1].b), IF TermB(j, m) THEN par.tgpe ELSE 0) ELSE NEG)

(* the cell-states an alignment visits *)
Visited(p) ==
    LET step(acc, c) ==
            IF c = 0 THEN [i |-> acc.i + 1, j |-> acc.j + 1, v |-> acc.v \cup {<<acc.i + 1, acc.j + 1, "m">>}]
            ELSE IF c = 1 THEN [i |-> acc.i, j |-> acc.j + 1, v |-> acc.v \cup {<<acc.i, acc.j + 1, "a">>}]
            ELSE [i |-> acc.i + 1, j |-> acc.j, v |-> acc.v \cup {<<acc.i + 1, acc.j, "b">>}]
    IN FoldLeft(step, [i |-> 0, j |-> 0, v |-> {}], p).v

ValidAln(a, b, p) ==
    /\ \A k \in 1..Len(p) : p[k] \in {0, 1, 2}
    /\ Cardinality({k \in 1..Len(p) : p[k] \in {0, 2}}) = Len(a)
    /\ Cardinality({k \in 1..Len(p) : p[k] \in {0, 1}}) = Len(b)

(* the cell-states of P by row: OnRows(p)[i + 1] = set of <<j, s>> visited in row i (rows are visited in order) *)
OnRows(p, n) ==
    LET addlast(rows, x) == [rows EXCEPT ![Len(rows)] = @ \cup {x}]
        step(acc, c) ==
            IF c = 0 THEN [j |-> acc.j + 1, rows |-> Append(acc.rows, {<<acc.j + 1, "m">>})]
            ELSE IF c = 1 THEN [j |-> acc.j + 1, rows |-> addlast(acc.rows, <<acc.j + 1, "a">>)]
            ELSE [j |-> acc.j, rows |-> Append(acc.rows, {<<acc.j, "b">>})]
    IN FoldLeft(step, [j |-> 0, rows |-> <<{}>>], p).rows

(* the largest Hi score of any alignment that leaves P somewhere *)
BestOffPath(par, a, b, p) ==
    LET n == Len(a)
        m == Len(b)
        F == Forward(par, a, b)
        R == Forward(par, Rev(a), Rev(b))
        on == Visited(p)
        rowmax(i) == FoldLeft(LAMBDA acc, j :
                        Max2(acc, Max3(IF <<i, j, "m">> \in on THEN NEG ELSE Through(F, R, par, a, b, i, j, "m"),
                                       IF <<i, j, "a">> \in on THEN NEG ELSE Through(F, R, par, a, b, i, j, "a"),
                                       IF <<i, j, "b">> \in on THEN NEG ELSE Through(F, R, par, a, b, i, j, "b"))),
                        NEG, [j \in 1..(m + 1) |-> j - 1])
    IN FoldLeft(LAMBDA acc, i : Max2(acc, rowmax(i)), NEG, [i \in 1..(n + 1) |-> i - 1])

(* P is the unique optimum with margin > slack under every admissible end-gap charge *)
Margin(par, a, b, p) == ScoreOf(par, a, b, p, "lo") - BestOffPath(par, a, b, p)
UniqueOptimum(par, a, b, p, slack) == ValidAln(a, b, p) /\ Allowed(p) /\ Margin(par, a, b, p) > slack
=============================================================================
