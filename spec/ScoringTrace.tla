---------------------------- MODULE ScoringTrace ----------------------------
(***************************************************************************)
(* C07: when the planted alignment P of (a, b) is the certified unique      *)
(* optimum under the parameters the kernels actually read (Params event),   *)
(* kalign must return exactly P, also for groups of identical copies.       *)
(*   Case    a, b (ASCII), p (planted path), ka, kb                         *)
(*   Params  subm, gpo, gpe, tgpe, biotype   (hook: parameters in force)    *)
(*   Obj out names, rows: ka copies of a first, then kb copies of b         *)
(* Cases without a certificate are skipped (KVSKIP), never judged.          *)
(***************************************************************************)
EXTENDS Scoring, Alphabet, Json, IOUtils
Trace == ndJsonDeserialize(IOEnv.TRACE)
VARIABLES l, cs, par, viol
vars == <<l, cs, par, viol>>
Ev == Trace[l]
Is(e) == l <= Len(Trace) /\ Trace[l].e = e
Init == l = 1 /\ cs = [k |-> "none", id |-> "none"] /\ par = [k |-> "none"] /\ viol = {}
Report(v) == viol' = v /\ IF v # {} THEN PrintT(<<"KVFAIL", l, cs.id, v>>) ELSE TRUE

TCase == /\ Is("Case") /\ l' = l + 1
         /\ cs' = [k |-> "case", id |-> Ev.id, a |-> Ev.a, b |-> Ev.b, p |-> Ev.p, ka |-> Ev.ka, kb |-> Ev.kb]
         /\ par' = [k |-> "none"] /\ viol' = {}
TParams == /\ Is("Params") /\ l' = l + 1
           /\ par' = [k |-> "ok", subm |-> Ev.subm, gpo |-> Ev.gpo, gpe |-> Ev.gpe, tgpe |-> Ev.tgpe, biotype |-> Ev.biotype]
           /\ UNCHANGED cs /\ viol' = {}

Dash == 45
PathOf(ra, rb) ==
    [k \in 1..Len(ra) |-> IF ra[k] # Dash /\ rb[k] # Dash THEN 0 ELSE IF ra[k] = Dash /\ rb[k] # Dash THEN 1 ELSE IF ra[k] # Dash THEN 2 ELSE 3]

(* slack (units of 0.1): the tie-break term |middle - i| / 1000 summed over the nested splits (< (n+m)/1000 score units),
   plus a float32 rounding allowance unless every score and penalty is a multiple of 0.5 (then all sums are exact) *)
ExactPar(q) == q.gpo % 5 = 0 /\ q.gpe % 5 = 0 /\ q.tgpe % 5 = 0 /\ \A k \in 1..Len(q.subm) : q.subm[k] % 5 = 0
Slack(q, n, m, lo) == (n + m) \div 100 + 2
                      + (IF ExactPar(q) THEN 0 ELSE (((IF lo < 0 THEN -lo ELSE lo) \div 1000) * (n + m)) \div 4000 + 1)

TOut ==
    /\ Is("Obj") /\ Ev.tag = "out" /\ cs.k = "case"
    /\ l' = l + 1
    /\ cs' = [cs EXCEPT !.k = "used"]
    /\ UNCHANGED par
    /\ IF par.k # "ok" \/ Ev.null = 1 \/ Ev.final # 1 \/ Ev.rows # 1
       THEN Report({"C07:run-failed"})
       ELSE LET alpha == IF par.biotype = 1 THEN A_DNA ELSE A_PROT23
                ca == [k \in 1..Len(cs.a) |-> Code(alpha, cs.a[k])]
                cb == [k \in 1..Len(cs.b) |-> Code(alpha, cs.b[k])]
                lo == ScoreOf(par, ca, cb, cs.p, "lo")
                ok == UniqueOptimum(par, ca, cb, cs.p, Slack(par, Len(ca), Len(cb), lo))
                rows == Ev.seqs
                shape == Len(rows) = cs.ka + cs.kb
                ra == rows[1]
                rb == rows[cs.ka + 1]
                groupsflat == shape /\ (\A i \in 1..cs.ka : rows[i] = ra) /\ (\A i \in 1..cs.kb : rows[cs.ka + i] = rb)
           IN IF ~ok THEN PrintT(<<"KVSKIP", l, cs.id, "no-certificate">>) /\ viol' = {}
              ELSE IF ~shape THEN Report({"C07:row-count"})
              ELSE IF ~groupsflat THEN Report({"C07:copies-of-one-sequence-aligned-differently"})
              ELSE IF PathOf(ra, rb) # cs.p THEN Report({"C07:certified-unique-optimum-not-returned"})
              ELSE viol' = {}

TOther ==
    /\ l <= Len(Trace)
    /\ ~(Ev.e = "Case" \/ Ev.e = "Params" \/ (Ev.e = "Obj" /\ Ev.tag = "out" /\ cs.k = "case"))
    /\ l' = l + 1 /\ UNCHANGED <<cs, par>> /\ viol' = {}
Next == TCase \/ TParams \/ TOut \/ TOther
Spec == Init /\ [][Next]_vars
Accepted == TLCGet("stats").diameter - 1 = Len(Trace)
=============================================================================
