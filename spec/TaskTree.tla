------------------------------ MODULE TaskTree ------------------------------
(***************************************************************************)
(* OpenMP tasking as kalign uses it (aln_run.c recursive_aln,               *)
(* aln_controller.c aln_runner, bisectingKmeans.c bisecting_kmeans):        *)
(* inside `parallel` + `single` a task body spawns child tasks, waits for   *)
(* its children (`taskwait`), reads what they wrote and writes its own      *)
(* result.  A task body is a program, a sequence of instructions            *)
(*    <<"spawn", c>>  <<"wait">>  <<"read", c>>  <<"write">>                *)
(* Semantics modelled (OpenMP 4.5, tied tasks):                             *)
(*  - a spawned task is either deferred (queued) or undeferred (run at once  *)
(*    by the encountering thread, e.g. if(0) or a serialised team);          *)
(*  - any idle thread may start a queued task;                              *)
(*  - a thread whose current task is blocked in taskwait may start a queued *)
(*    task that is a descendant of every task suspended on that thread;     *)
(*  - taskwait completes when all children spawned so far are finished.     *)
(* Reading the result of an unfinished task yields Poison.                  *)
(* Property served: C02 (no merge before both groups are complete; forward  *)
(* and backward finished before they are combined; result independent of    *)
(* the schedule).                                                           *)
(***************************************************************************)
EXTENDS Naturals, Sequences, FiniteSets, TLC

CONSTANTS Tasks,       \* set of task ids
          Root,        \* the task run by the `single` thread
          Prog,        \* Prog[t]: sequence of instructions
          NThreads

Threads == 1..NThreads
Poison == <<0, <<>>>>   \* shaped like a result, task 0 does not exist

VARIABLES status,   \* status[t] \in {"new", "queued", "active", "done"}
          pc,       \* pc[t]: next instruction of t (1-based)
          acc,      \* acc[t]: values read so far
          out,      \* out[t]: value written by t (<<>> before)
          stack     \* stack[th]: tasks started on thread th and not finished, top = last

vars == <<status, pc, acc, out, stack>>

Instr(t) == Prog[t][pc[t]]
AtEnd(t) == pc[t] > Len(Prog[t])

Spawned(t) == {Prog[t][i][2] : i \in {j \in 1..(pc[t] - 1) : Prog[t][j][1] = "spawn"}}
Children(t) == {Prog[t][i][2] : i \in {j \in 1..Len(Prog[t]) : Prog[t][j][1] = "spawn"}}

Parent(c) == CHOOSE t \in Tasks : c \in Children(t)
RECURSIVE Ancestors(_)
Ancestors(c) == IF c = Root THEN {} ELSE {Parent(c)} \cup Ancestors(Parent(c))

Top(th) == stack[th][Len(stack[th])]
Idle(th) == stack[th] = <<>>

Init ==
    /\ status = [t \in Tasks |-> IF t = Root THEN "active" ELSE "new"]
    /\ pc = [t \in Tasks |-> 1]
    /\ acc = [t \in Tasks |-> <<>>]
    /\ out = [t \in Tasks |-> <<>>]
    /\ stack = [th \in Threads |-> IF th = 1 THEN <<Root>> ELSE <<>>]

(* the current task of th executes one instruction *)
SpawnDeferred(th) ==
    /\ ~Idle(th) /\ ~AtEnd(Top(th)) /\ Instr(Top(th))[1] = "spawn"
    /\ LET t == Top(th) c == Instr(t)[2]
       IN /\ status' = [status EXCEPT ![c] = "queued"]
          /\ pc' = [pc EXCEPT ![t] = @ + 1]
    /\ UNCHANGED <<acc, out, stack>>

SpawnUndeferred(th) ==
    /\ ~Idle(th) /\ ~AtEnd(Top(th)) /\ Instr(Top(th))[1] = "spawn"
    /\ LET t == Top(th) c == Instr(t)[2]
       IN /\ status' = [status EXCEPT ![c] = "active"]
          /\ pc' = [pc EXCEPT ![t] = @ + 1]
          /\ stack' = [stack EXCEPT ![th] = Append(@, c)]
    /\ UNCHANGED <<acc, out>>

WaitDone(th) ==
    /\ ~Idle(th) /\ ~AtEnd(Top(th)) /\ Instr(Top(th))[1] = "wait"
    /\ \A c \in Spawned(Top(th)) : status[c] = "done"
    /\ pc' = [pc EXCEPT ![Top(th)] = @ + 1]
    /\ UNCHANGED <<status, acc, out, stack>>

(* task scheduling point in taskwait: start a queued descendant of everything suspended here *)
WaitSteal(th, q) ==
    /\ ~Idle(th) /\ ~AtEnd(Top(th)) /\ Instr(Top(th))[1] = "wait"
    /\ status[q] = "queued"
    /\ \A i \in 1..Len(stack[th]) : stack[th][i] \in Ancestors(q)
    /\ status' = [status EXCEPT ![q] = "active"]
    /\ stack' = [stack EXCEPT ![th] = Append(@, q)]
    /\ UNCHANGED <<pc, acc, out>>

IdleStart(th, q) ==
    /\ Idle(th)
    /\ status[q] = "queued"
    /\ status' = [status EXCEPT ![q] = "active"]
    /\ stack' = [stack EXCEPT ![th] = <<q>>]
    /\ UNCHANGED <<pc, acc, out>>

Read(th) ==
    /\ ~Idle(th) /\ ~AtEnd(Top(th)) /\ Instr(Top(th))[1] = "read"
    /\ LET t == Top(th) c == Instr(t)[2]
       IN /\ acc' = [acc EXCEPT ![t] = Append(@, IF status[c] = "done" THEN out[c] ELSE Poison)]
          /\ pc' = [pc EXCEPT ![t] = @ + 1]
    /\ UNCHANGED <<status, out, stack>>

Write(th) ==
    /\ ~Idle(th) /\ ~AtEnd(Top(th)) /\ Instr(Top(th))[1] = "write"
    /\ LET t == Top(th)
       IN /\ out' = [out EXCEPT ![t] = <<t, acc[t]>>]
          /\ pc' = [pc EXCEPT ![t] = @ + 1]
    /\ UNCHANGED <<status, acc, stack>>

Finish(th) ==
    /\ ~Idle(th) /\ AtEnd(Top(th))
    /\ status' = [status EXCEPT ![Top(th)] = "done"]
    /\ stack' = [stack EXCEPT ![th] = SubSeq(@, 1, Len(@) - 1)]
    /\ UNCHANGED <<pc, acc, out>>

Step(th) ==
    \/ SpawnDeferred(th) \/ SpawnUndeferred(th) \/ WaitDone(th) \/ Read(th) \/ Write(th) \/ Finish(th)
    \/ \E q \in Tasks : WaitSteal(th, q) \/ IdleStart(th, q)

Next == \E th \in Threads : Step(th)

Spec == Init /\ [][Next]_vars
FairSpec == Spec /\ \A th \in Threads : WF_vars(Step(th))

-----------------------------------------------------------------------------
(* the value a sequential, depth-first execution writes *)
RECURSIVE SeqOut(_)
SeqOut(t) ==
    LET reads == SelectSeq(Prog[t], LAMBDA ins : ins[1] = "read")
    IN <<t, [i \in 1..Len(reads) |-> SeqOut(reads[i][2])]>>

(* C02: nothing is read before it is complete *)
NoEarlyRead ==
    \A th \in Threads : (~Idle(th) /\ ~AtEnd(Top(th)) /\ Instr(Top(th))[1] = "read") => status[Instr(Top(th))[2]] = "done"

NoPoison == \A t \in Tasks : \A i \in 1..Len(acc[t]) : acc[t][i] # Poison

(* C02: whatever the schedule, the result is the sequential one *)
Determinate == \A t \in Tasks : (status[t] = "done" /\ \E i \in 1..Len(Prog[t]) : Prog[t][i][1] = "write") => out[t] = SeqOut(t)

TypeOK ==
    /\ \A t \in Tasks : status[t] \in {"new", "queued", "active", "done"}
    /\ \A t \in Tasks : (status[t] = "active") <=> (\E th \in Threads : \E i \in 1..Len(stack[th]) : stack[th][i] = t)

AllDone == \A t \in Tasks : status[t] = "done"
(* no deadlock other than completion *)
Progress == AllDone \/ ENABLED Next
Termination == <>AllDone
=============================================================================
