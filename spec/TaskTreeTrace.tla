--------------------------- MODULE TaskTreeTrace ---------------------------
(***************************************************************************)
(* Validates the fork/join order and the data flow of recorded kalign       *)
(* executions (C02).  The events carry one global sequence number taken     *)
(* under the lock that also writes them, so file order is happens-before    *)
(* consistent: a child's end event is written before its task completes,    *)
(* hence before the parent's taskwait can return.                           *)
(*   Tree        tasks (a,b,c) and digests of the leaves                    *)
(*   MergeBegin  c, a, b, inA, inB : after the taskwait, before do_align;   *)
(*               inA/inB = digest of what the merge is about to read        *)
(*   MergeEnd    c, out            : digest of what was written             *)
(*   HStep/HFwd/HBwd/HMeet         : one parallel Hirschberg step on a mem  *)
(*   KmNode/KmSplit/KmReduce/KmKids/KmDone : bisecting k-means              *)
(* This is the projection of TaskTree onto the events of the code: the      *)
(* enabling conditions are TaskTree's NoEarlyRead, the digest equalities    *)
(* are its data flow (acc = out of the finished child).                     *)
(***************************************************************************)
EXTENDS Naturals, Sequences, FiniteSets, TLC, Json, IOUtils

Trace == ndJsonDeserialize(IOEnv.TRACE)

VARIABLES l, sid,
          nleaf,      \* number of leaves
          kids,       \* kids[c] = <<a, b>> for internal nodes (from Tree)
          outd,       \* outd[x]: digest written by finished node x (leaves from Tree)
          begun,      \* internal nodes whose merge has begun
          hs,         \* hs[m]: state of the parallel Hirschberg step on memory m
          km,         \* km[id]: k-means node state
          viol

vars == <<l, sid, nleaf, kids, outd, begun, hs, km, viol>>
Ev == Trace[l]
Is(e) == l <= Len(Trace) /\ Trace[l].e = e

Fresh == /\ nleaf' = 0 /\ kids' = <<>> /\ outd' = <<>> /\ begun' = {} /\ hs' = <<>> /\ km' = <<>>

Init == l = 1 /\ sid = "none" /\ nleaf = 0 /\ kids = <<>> /\ outd = <<>> /\ begun = {} /\ hs = <<>> /\ km = <<>> /\ viol = {}

Report(v) ==
    /\ viol' = v
    /\ IF v # {} THEN PrintT(<<"KVFAIL", l, sid, v>>) ELSE TRUE

Put(f, k, v) == [x \in (DOMAIN f) \cup {k} |-> IF x = k THEN v ELSE f[x]]

TReset == Is("Reset") /\ l' = l + 1 /\ sid' = "none" /\ Fresh /\ Report({})
TNote == Is("Note") /\ l' = l + 1 /\ sid' = Ev.text /\ UNCHANGED <<nleaf, kids, outd, begun, hs, km>> /\ Report({})
(* a new run on the same object starts from scratch *)
TRunBegin == Is("RunBegin") /\ l' = l + 1 /\ UNCHANGED sid /\ Fresh /\ Report({})

TTree ==
    /\ Is("Tree")
    /\ l' = l + 1
    /\ nleaf' = Ev.n
    /\ kids' = [c \in {Ev.abc[3 * k] : k \in 1..Ev.ntasks} |->
                  LET k == CHOOSE j \in 1..Ev.ntasks : Ev.abc[3 * j] = c IN <<Ev.abc[3 * k - 2], Ev.abc[3 * k - 1]>>]
    /\ outd' = [x \in 0..(Ev.n - 1) |-> Ev.leaf[x + 1]]
    /\ begun' = {}
    /\ UNCHANGED <<sid, hs, km>>
    \* the guide tree is complete before it is used: every k-means node that was entered is done
    /\ Report(IF \E id \in DOMAIN km : ~km[id].done THEN {"C02:tree-used-before-kmeans-done"} ELSE {})

TMergeBegin ==
    /\ Is("MergeBegin")
    /\ l' = l + 1
    /\ begun' = begun \cup {Ev.c}
    /\ UNCHANGED <<sid, nleaf, kids, outd, hs, km>>
    /\ Report((IF Ev.a \notin DOMAIN outd \/ Ev.b \notin DOMAIN outd THEN {"C02:merge-started-before-both-groups-complete"}
               ELSE (IF outd[Ev.a] # Ev.inA \/ outd[Ev.b] # Ev.inB THEN {"C02:merge-reads-other-than-what-children-wrote"} ELSE {}))
              \cup (IF Ev.c \in DOMAIN kids /\ kids[Ev.c] # <<Ev.a, Ev.b>> THEN {"C02:merge-not-in-tree"} ELSE {})
              \cup (IF Ev.c \in begun THEN {"C02:merge-twice"} ELSE {}))

TMergeEnd ==
    /\ Is("MergeEnd")
    /\ l' = l + 1
    /\ outd' = Put(outd, Ev.c, Ev.out)
    /\ UNCHANGED <<sid, nleaf, kids, begun, hs, km>>
    /\ Report(IF Ev.c \notin begun THEN {"C02:merge-end-without-begin"} ELSE {})

(* ---- one parallel Hirschberg step per memory at a time ---- *)
THStep ==
    /\ Is("HStep")
    /\ l' = l + 1
    /\ hs' = IF Ev.par = 1 THEN Put(hs, Ev.m, [f |-> FALSE, b |-> FALSE, fd |-> 0, bd |-> 0, met |-> FALSE]) ELSE hs
    /\ UNCHANGED <<sid, nleaf, kids, outd, begun, km>>
    /\ Report(IF Ev.par = 1 /\ Ev.m \in DOMAIN hs /\ ~hs[Ev.m].met THEN {"C02:step-started-before-previous-combined"} ELSE {})

THFwd ==
    /\ Is("HFwd")
    /\ l' = l + 1
    /\ hs' = IF Ev.m \in DOMAIN hs THEN [hs EXCEPT ![Ev.m].f = TRUE, ![Ev.m].fd = Ev.dg] ELSE hs
    /\ UNCHANGED <<sid, nleaf, kids, outd, begun, km>>
    /\ Report(IF Ev.m \notin DOMAIN hs THEN {"C02:forward-without-step"} ELSE {})

THBwd ==
    /\ Is("HBwd")
    /\ l' = l + 1
    /\ hs' = IF Ev.m \in DOMAIN hs THEN [hs EXCEPT ![Ev.m].b = TRUE, ![Ev.m].bd = Ev.dg] ELSE hs
    /\ UNCHANGED <<sid, nleaf, kids, outd, begun, km>>
    /\ Report(IF Ev.m \notin DOMAIN hs THEN {"C02:backward-without-step"} ELSE {})

THMeet ==
    /\ Is("HMeet")
    /\ l' = l + 1
    /\ hs' = IF Ev.m \in DOMAIN hs THEN [hs EXCEPT ![Ev.m].met = TRUE] ELSE hs
    /\ UNCHANGED <<sid, nleaf, kids, outd, begun, km>>
    /\ Report(IF Ev.m \notin DOMAIN hs THEN {"C02:combine-without-step"}
              ELSE (IF ~hs[Ev.m].f \/ ~hs[Ev.m].b THEN {"C02:halves-combined-before-both-finished"}
                    ELSE IF hs[Ev.m].fd # Ev.f \/ hs[Ev.m].bd # Ev.b THEN {"C02:combine-reads-other-than-what-halves-wrote"} ELSE {}))

(* ---- bisecting k-means ---- *)
TKmNode ==
    /\ Is("KmNode")
    /\ l' = l + 1
    /\ km' = Put(km, Ev.id, [leaf |-> Ev.leaf = 1, splits |-> <<>>, kids |-> <<>>, done |-> FALSE])
    /\ UNCHANGED <<sid, nleaf, kids, outd, begun, hs>>
    /\ Report({})

TKmSplit ==
    /\ Is("KmSplit")
    /\ l' = l + 1
    /\ km' = IF Ev.id \in DOMAIN km THEN [km EXCEPT ![Ev.id].splits = Put(@, Ev.seed, Ev.dg)] ELSE km
    /\ UNCHANGED <<sid, nleaf, kids, outd, begun, hs>>
    /\ Report(IF Ev.id \notin DOMAIN km THEN {"C02:restart-without-node"} ELSE {})

TKmReduce ==
    /\ Is("KmReduce")
    /\ l' = l + 1
    /\ LET seeds == [k \in 1..4 |-> (Ev.i + k - 1) * Ev.step]
           known == Ev.id \in DOMAIN km
           have == known /\ \A k \in 1..4 : seeds[k] \in DOMAIN km[Ev.id].splits
       IN /\ Report(IF ~known THEN {"C02:reduce-without-node"}
                    ELSE IF ~have THEN {"C02:reduce-before-all-restarts-finished"}
                    ELSE IF \E k \in 1..4 : km[Ev.id].splits[seeds[k]] # Ev.dg[k] THEN {"C02:reduce-reads-other-than-what-restarts-wrote"} ELSE {})
          \* the four slots are consumed: the next round must write them again
          /\ km' = IF known THEN [km EXCEPT ![Ev.id].splits = <<>>] ELSE km
    /\ UNCHANGED <<sid, nleaf, kids, outd, begun, hs>>

TKmKids ==
    /\ Is("KmKids")
    /\ l' = l + 1
    /\ km' = IF Ev.id \in DOMAIN km THEN [km EXCEPT ![Ev.id].kids = <<Ev.l, Ev.r>>] ELSE km
    /\ UNCHANGED <<sid, nleaf, kids, outd, begun, hs>>
    /\ Report(IF Ev.nl = 0 \/ Ev.nr = 0 THEN {"C02:empty-side"} ELSE {})

TKmDone ==
    /\ Is("KmDone")
    /\ l' = l + 1
    /\ km' = IF Ev.id \in DOMAIN km THEN [km EXCEPT ![Ev.id].done = TRUE] ELSE km
    /\ UNCHANGED <<sid, nleaf, kids, outd, begun, hs>>
    /\ Report(IF Ev.id \notin DOMAIN km THEN {"C02:done-without-node"}
              ELSE IF ~km[Ev.id].leaf /\ (km[Ev.id].kids = <<>> \/ \E k \in 1..2 : km[Ev.id].kids[k] \notin DOMAIN km \/ ~km[km[Ev.id].kids[k]].done)
                   THEN {"C02:kmeans-node-finished-before-its-children"} ELSE {})

Handled == {"Reset", "Note", "RunBegin", "Tree", "MergeBegin", "MergeEnd", "HStep", "HFwd", "HBwd", "HMeet",
            "KmNode", "KmSplit", "KmReduce", "KmKids", "KmDone"}

TSkip ==
    /\ l <= Len(Trace) /\ Trace[l].e \notin Handled
    /\ l' = l + 1
    /\ UNCHANGED <<sid, nleaf, kids, outd, begun, hs, km>>
    /\ Report({})

Next == TReset \/ TNote \/ TRunBegin \/ TTree \/ TMergeBegin \/ TMergeEnd \/ THStep \/ THFwd \/ THBwd \/ THMeet
        \/ TKmNode \/ TKmSplit \/ TKmReduce \/ TKmKids \/ TKmDone \/ TSkip

Spec == Init /\ [][Next]_vars
NoViolation == viol = {}
Accepted == TLCGet("stats").diameter - 1 = Len(Trace)
=============================================================================
