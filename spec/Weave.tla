------------------------------- MODULE Weave -------------------------------
(***************************************************************************)
(* Progressive merging on gap vectors (kalign: aln_run.c do_align,          *)
(* weave_alignment.c make_seq/update_gaps, msa_op.c finalise_alignment,     *)
(* msa_sort.c msa_sort_rank).                                               *)
(*                                                                          *)
(* A leaf s has residues res[s] (sequence of ASCII codes) and a gap vector  *)
(* gaps[s] of Len(res[s])+1 naturals: gaps[s][i] dashes stand in front of   *)
(* residue i (1-based), gaps[s][n+1] after the last one.  A merge of two    *)
(* finished groups a, b is given by a path over {0,1,2}: 0 takes a column   *)
(* of both, 1 is a gap in a (takes a column of b), 2 is a gap in b.         *)
(*                                                                          *)
(* Properties served: C01 (integrity), C10 (merging never re-aligns).       *)
(***************************************************************************)
EXTENDS Naturals, Sequences, FiniteSets, SequencesExt, TLC

Dash == 45

Sum(s) == FoldLeft(LAMBDA acc, x : acc + x, 0, s)

Count(p, S) == FoldLeft(LAMBDA acc, x : IF x \in S THEN acc + 1 ELSE acc, 0, p)

ValidPath(p, la, lb) ==
    /\ \A k \in 1..Len(p) : p[k] \in {0, 1, 2}
    /\ Count(p, {0, 2}) = la
    /\ Count(p, {0, 1}) = lb

(* side "a": gap code 1, consuming codes {0,2}; side "b": gap code 2, consuming {0,1} *)
GapCode(side) == IF side = "a" THEN 1 ELSE 2

(* number of new dashes in front of each old column of the side (1..l) and after the last (l+1) *)
GapVec(p, side, l) ==
    LET step(acc, c) ==
            IF c = GapCode(side)
            THEN [acc EXCEPT !.v[acc.pos] = @ + 1]
            ELSE IF c = 0 \/ c = 3 - GapCode(side)
                 THEN [acc EXCEPT !.pos = @ + 1]
                 ELSE acc
    IN FoldLeft(step, [v |-> [i \in 1..(l + 1) |-> 0], pos |-> 1], p).v

RowLen(g) == Len(g) - 1 + Sum(g)

(***************************************************************************)
(* UpdateGaps(g, v): v has RowLen(g)+1 entries; v[k] new dashes go in front *)
(* of old row position k (v[L+1]: at the end).  Old row position k belongs  *)
(* to residue i or to the dash run in front of it (or the trailing run);    *)
(* the new dashes join that run.  Variant "offbyone" is the broken twin     *)
(* (range one short) used to show that the invariants can fail.             *)
(***************************************************************************)
UpdateGapsV(g, v, variant) ==
    LET step(acc, i) ==
            LET lo == acc.rel + 1
                hi == IF variant = "ok" THEN acc.rel + g[i] + 1 ELSE acc.rel + g[i]
                add == Sum(SubSeq(v, lo, hi))
            IN [out |-> Append(acc.out, g[i] + add), rel |-> acc.rel + g[i] + 1]
    IN FoldLeft(step, [out |-> <<>>, rel |-> 0], [i \in 1..Len(g) |-> i]).out

UpdateGaps(g, v) == UpdateGapsV(g, v, "ok")

Dashes(n) == [i \in 1..n |-> Dash]

(* the row of a leaf: gaps[1] dashes, residue 1, gaps[2] dashes, ... residue n, gaps[n+1] dashes *)
Render(r, g) ==
    LET step(acc, i) == acc \o Dashes(g[i]) \o <<r[i]>>
    IN FoldLeft(step, <<>>, [i \in 1..Len(r) |-> i]) \o Dashes(g[Len(r) + 1])

StripDash(row) == SelectSeq(row, LAMBDA x : x # Dash)

(* columns (indices) of a tuple of equally long rows in which every row has a dash *)
AllGapCols(rows) ==
    IF Len(rows) = 0 THEN {}
    ELSE {k \in 1..Len(rows[1]) : \A i \in 1..Len(rows) : rows[i][k] = Dash}

RemoveCols(row, cols) ==
    LET step(acc, k) == IF k \in cols THEN acc ELSE Append(acc, row[k])
    IN FoldLeft(step, <<>>, [k \in 1..Len(row) |-> k])

(* rows of a group with the columns that are dashes in all of them removed *)
Project(rows) ==
    LET cols == AllGapCols(rows)
    IN [i \in 1..Len(rows) |-> RemoveCols(rows[i], cols)]

EqualLen(rows) == \A i, j \in 1..Len(rows) : Len(rows[i]) = Len(rows[j])

(* residue positions per row: col -> index of residue (0 for dash) *)
ResidueIndex(row) ==
    LET step(acc, k) ==
            IF row[k] = Dash THEN [acc EXCEPT !.m = Append(@, 0)]
            ELSE [m |-> Append(acc.m, acc.n + 1), n |-> acc.n + 1]
    IN FoldLeft(step, [m |-> <<>>, n |-> 0], [k \in 1..Len(row) |-> k]).m

=============================================================================
