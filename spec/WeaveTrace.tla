----------------------------- MODULE WeaveTrace -----------------------------
(***************************************************************************)
(* Trace validation of recorded kalign executions against Weave.           *)
(* One trace file (env TRACE) holds many executions separated by Reset.    *)
(* Per execution the harness records                                        *)
(*   Obj(tag "in")   the object as read: names, residues                    *)
(*   Ranked/Sorted   rank and length of each sequence in canonical order    *)
(*   Tree            the tasks (a,b,c)                                      *)
(*   MergeEnd        c, a, b, plen, path, members, gap vectors of members   *)
(*   Final           alnlen                                                 *)
(*   Obj(tag "out")  the object after the run: names, rows                  *)
(*   Out             rows parsed back from a written file / the array API   *)
(* Every line must be explained by an action; the C01 / C10 invariants are  *)
(* evaluated on the logged state after every step.  `viol` collects the     *)
(* names of violated requirements of the current step (verdict), `div`      *)
(* collects disagreements between the code and this model that are not a    *)
(* property violation by themselves (diagnostic).                           *)
(***************************************************************************)
EXTENDS Weave, Json, IOUtils

Trace == ndJsonDeserialize(IOEnv.TRACE)

VARIABLES l,          \* next trace line
          sid,        \* scenario id of the current execution (from Note)
          recs,       \* input records: [names |-> .., seqs |-> ..] or <<>>
          rank,       \* rank[i]: input index (0-based) of canonical leaf i (1-based)
          res,        \* res[i]: residues of canonical leaf i
          gaps,       \* gaps[i]: gap vector of canonical leaf i
          node,       \* node[c]: [members |-> seq of leaves (1-based), plen |-> Nat, snap |-> rows] for finished nodes, keyed by c (0-based id as logged)
          consumed,   \* set of node ids already merged into a parent
          tasks,      \* sequence of <<a,b,c>>
          outrows,    \* rows of the final object in input order
          viol, div

vars == <<l, sid, recs, rank, res, gaps, node, consumed, tasks, outrows, viol, div>>

Ev == Trace[l]
Is(e) == l <= Len(Trace) /\ Trace[l].e = e

Fresh ==
    /\ recs = <<>>
    /\ rank = <<>>
    /\ res = <<>>
    /\ gaps = <<>>
    /\ node = <<>>
    /\ consumed = {}
    /\ tasks = <<>>
    /\ outrows = <<>>

Init ==
    /\ l = 1
    /\ sid = "none"
    /\ Fresh
    /\ viol = {}
    /\ div = {}

Report(v, d) ==
    /\ viol' = v
    /\ div' = d
    /\ IF v # {} THEN PrintT(<<"KVFAIL", l, sid, v>>) ELSE TRUE
    /\ IF d # {} THEN PrintT(<<"KVDIV", l, sid, d>>) ELSE TRUE

(* names: FASTA keeps a name in full, the block formats (Clustal, MSF) and their readers keep its first MSA_NAME_LEN - 1 = 255
   bytes (256 when written from a longer FASTA name); beyond that length names are compared on what every path keeps *)
NameEq(x, y) == x = y \/ (Len(x) >= 255 /\ Len(y) >= 255 /\ SubSeq(x, 1, 255) = SubSeq(y, 1, 255))

TReset ==
    /\ Is("Reset")
    /\ l' = l + 1
    /\ recs' = <<>> /\ rank' = <<>> /\ res' = <<>> /\ gaps' = <<>> /\ node' = <<>>
    /\ consumed' = {} /\ tasks' = <<>> /\ outrows' = <<>>
    /\ sid' = "none"
    /\ Report({}, {})

TNote ==
    /\ Is("Note")
    /\ l' = l + 1
    /\ sid' = Ev.text
    /\ UNCHANGED <<recs, rank, res, gaps, node, consumed, tasks, outrows>>
    /\ Report({}, {})

(* lines that carry no Weave state *)
Skippable == {"Call", "Ret", "RunBegin", "Ranked", "Dm", "Anchors", "KmNode", "KmSplit", "KmReduce", "KmKids", "KmDone",
              "Params", "RunEnd", "HStep", "HSplit", "HFwd", "HBwd", "HMeet", "MergeBegin", "End", "Heap"}

TSkip ==
    /\ l <= Len(Trace)
    /\ Trace[l].e \in Skippable
    /\ l' = l + 1
    /\ UNCHANGED <<sid, recs, rank, res, gaps, node, consumed, tasks, outrows>>
    /\ Report({}, {})

(* the records as the generator wrote them into the input file(s): from here on THEY are "the input" *)
TGiven ==
    /\ Is("Given")
    /\ l' = l + 1
    /\ recs' = [names |-> Ev.names, seqs |-> Ev.seqs, given |-> TRUE]
    /\ UNCHANGED <<sid, rank, res, gaps, node, consumed, tasks, outrows>>
    /\ Report({}, {})

(* what kalign read: the reference when nothing was given (array API, traces of other checks); otherwise it must BE what was
   given - same number of records, same names (NameEq), the same residues letter for letter *)
TIn ==
    /\ Is("Obj") /\ Ev.tag = "in"
    /\ l' = l + 1
    /\ UNCHANGED <<sid, rank, res, gaps, node, consumed, tasks, outrows>>
    /\ IF recs # <<>> /\ "given" \in DOMAIN recs /\ Ev.null = 0
       THEN /\ UNCHANGED recs
            /\ Report(IF Len(Ev.seqs) # Len(recs.seqs) THEN {"C01:records-read-differ-from-the-input-file"}
                      ELSE (IF \E k \in 1..Len(Ev.seqs) : Ev.seqs[k] # recs.seqs[k] THEN {"C01:residues-read-differ-from-the-input-file"} ELSE {})
                           \cup (IF \E k \in 1..Len(Ev.names) : ~NameEq(Ev.names[k], recs.names[k]) THEN {"C01:name-or-order"} ELSE {}), {})
       ELSE /\ recs' = [names |-> Ev.names, seqs |-> Ev.seqs]
            /\ Report({}, {})

(* canonical order fixed: leaf i (1-based) is the input record with rank Ev.ranks[i] *)
TSorted ==
    /\ Is("Sorted")
    /\ l' = l + 1
    /\ LET n == Ev.n
           r == [i \in 1..n |-> Ev.ranks[i]]
           rs == [i \in 1..n |-> recs.seqs[r[i] + 1]]
       IN /\ rank' = r
          /\ res' = rs
          /\ gaps' = [i \in 1..n |-> [k \in 1..(Len(rs[i]) + 1) |-> 0]]
          /\ node' = [i \in 0..(n - 1) |-> [members |-> <<i + 1>>, plen |-> Len(rs[i + 1]), snap |-> <<rs[i + 1]>>]]
          /\ Report({}, (IF \E i \in 1..n : Len(rs[i]) # Ev.lens[i] THEN {"Sorted.lens"} ELSE {})
                        \cup (IF \E i \in 1..n : Len(rs[i]) = 0 THEN {"Sorted.zero-length-kept"} ELSE {}))
    /\ consumed' = {}
    /\ UNCHANGED <<sid, recs, tasks, outrows>>

TTree ==
    /\ Is("Tree")
    /\ l' = l + 1
    /\ tasks' = [k \in 1..Ev.ntasks |-> <<Ev.abc[3 * k - 2], Ev.abc[3 * k - 1], Ev.abc[3 * k]>>]
    /\ UNCHANGED <<sid, recs, rank, res, gaps, node, consumed, outrows>>
    /\ Report({}, {})

RowsNow(mem, g) == [i \in 1..Len(mem) |-> Render(res[mem[i]], g[mem[i]])]

TMergeEnd ==
    /\ Is("MergeEnd")
    /\ "path" \in DOMAIN Ev
    /\ l' = l + 1
    /\ LET a == Ev.a
           b == Ev.b
           c == Ev.c
           p == Ev.path
           known == a \in DOMAIN node /\ b \in DOMAIN node
       IN IF ~known
          THEN /\ UNCHANGED <<gaps, node, consumed>>
               /\ Report({"C02:merge-before-children-done"}, {})
          ELSE IF node[a].members = <<>> \/ node[b].members = <<>>
          THEN \* a child was logged as a digest only: this subtree is not followed step by step
               /\ node' = [x \in (DOMAIN node) \cup {c} |-> IF x = c THEN [members |-> <<>>, plen |-> Ev.plen, snap |-> <<>>] ELSE node[x]]
               /\ consumed' = consumed \cup {a, b}
               /\ UNCHANGED gaps
               /\ Report({}, {})
          ELSE
          LET pa == node[a].plen
              pb == node[b].plen
              valid == ValidPath(p, pa, pb)
              mem == [i \in 1..Len(Ev.members) |-> Ev.members[i] + 1]
              \* the state the code reports
              glog == [s \in DOMAIN gaps |->
                          IF \E i \in 1..Len(mem) : mem[i] = s
                          THEN Ev.gaps[CHOOSE i \in 1..Len(mem) : mem[i] = s]
                          ELSE gaps[s]]
              \* the state the model computes
              va == GapVec(p, "a", pa)
              vb == GapVec(p, "b", pb)
              inA == {node[a].members[i] : i \in 1..Len(node[a].members)}
              inB == {node[b].members[i] : i \in 1..Len(node[b].members)}
              gmod == [s \in DOMAIN gaps |->
                          IF s \in inA THEN UpdateGaps(gaps[s], va)
                          ELSE IF s \in inB THEN UpdateGaps(gaps[s], vb)
                          ELSE gaps[s]]
              memset == {mem[i] : i \in 1..Len(mem)}
              wellshaped == /\ memset = inA \cup inB
                            /\ Len(mem) = Cardinality(memset)
                            /\ \A s \in memset : Len(glog[s]) = Len(res[s]) + 1
              rows == IF wellshaped THEN RowsNow(mem, glog) ELSE <<>>
              \* C01 on the logged state of the new group
              rowlen == wellshaped /\ \A i \in 1..Len(rows) : Len(rows[i]) = Ev.plen
              noallgap == wellshaped /\ rowlen /\ AllGapCols(rows) = {}
              \* C10 on the logged state: each child group projects to its snapshot
              projA == wellshaped /\ Project(RowsNow(node[a].members, glog)) = node[a].snap
              projB == wellshaped /\ Project(RowsNow(node[b].members, glog)) = node[b].snap
              v == (IF a \in consumed \/ b \in consumed \/ a = b THEN {"C10:child-merged-twice"} ELSE {})
                   \cup (IF ~valid THEN {"C01:invalid-path"} ELSE {})
                   \cup (IF ~wellshaped THEN {"C01:members"} ELSE {})
                   \cup (IF Len(p) # Ev.plen THEN {"C01:plen"} ELSE {})
                   \cup (IF ~rowlen THEN {"C01:row-length"} ELSE {})
                   \cup (IF rowlen /\ ~noallgap THEN {"C01:all-gap-column"} ELSE {})
                   \cup (IF ~projA \/ ~projB THEN {"C10:projection"} ELSE {})
              d == IF valid /\ wellshaped /\ glog # gmod THEN {"MergeEnd.gaps#UpdateGaps"} ELSE {}
          IN /\ gaps' = glog
             /\ node' = [x \in (DOMAIN node) \cup {c} |->
                            IF x = c THEN [members |-> mem, plen |-> Ev.plen, snap |-> rows] ELSE node[x]]
             /\ consumed' = consumed \cup {a, b}
             /\ Report(v, d)
    /\ UNCHANGED <<sid, recs, rank, res, tasks, outrows>>

(* large runs: MergeEnd without arrays; only the plen chain can be followed *)
TMergeEndDigest ==
    /\ Is("MergeEnd")
    /\ "path" \notin DOMAIN Ev
    /\ l' = l + 1
    /\ node' = [x \in (DOMAIN node) \cup {Ev.c} |-> IF x = Ev.c THEN [members |-> <<>>, plen |-> Ev.plen, snap |-> <<>>] ELSE node[x]]
    /\ consumed' = consumed \cup {Ev.a, Ev.b}
    /\ UNCHANGED <<sid, recs, rank, res, gaps, tasks, outrows>>
    /\ Report(IF Ev.a \notin DOMAIN node \/ Ev.b \notin DOMAIN node THEN {"C02:merge-before-children-done"} ELSE {}, {})

TFinal ==
    /\ Is("Final")
    /\ l' = l + 1
    /\ UNCHANGED <<sid, recs, rank, res, gaps, node, consumed, tasks, outrows>>
    /\ LET live == (DOMAIN node) \ consumed
       IN Report(IF node # <<>> /\ Cardinality(live) = 1 /\ (\A c \in live : node[c].plen # Ev.alnlen) /\ Len(tasks) = Cardinality(consumed) \div 2
                 THEN {"C01:alnlen"} ELSE {}, {})

(***************************************************************************)
(* The object after the run (or the rows parsed from an output file, or    *)
(* the rows returned by the array API): C01 in full, evaluated on what the *)
(* caller actually gets.                                                   *)
(***************************************************************************)
NonEmptyInputs == SelectSeq([i \in 1..Len(recs.seqs) |-> i], LAMBDA i : Len(recs.seqs[i]) > 0)

OutChecks(names, rows, checknames) ==
    LET idx == NonEmptyInputs
        n == Len(idx)
    IN (IF Len(rows) # n THEN {"C01:row-count"} ELSE
          (IF ~EqualLen(rows) THEN {"C01:row-length"} ELSE {})
          \cup (IF \E k \in 1..n : StripDash(rows[k]) # recs.seqs[idx[k]] THEN {"C01:degap"} ELSE {})
          \cup (IF checknames /\ \E k \in 1..n : ~NameEq(names[k], recs.names[idx[k]]) THEN {"C01:name-or-order"} ELSE {})
          \cup (IF EqualLen(rows) /\ n > 0 /\ AllGapCols(rows) # {} THEN {"C01:all-gap-column"} ELSE {}))

TOutObj ==
    /\ Is("Obj") /\ Ev.tag = "out"
    /\ l' = l + 1
    /\ outrows' = Ev.seqs
    /\ UNCHANGED <<sid, recs, rank, res, gaps, node, consumed, tasks>>
    /\ LET n == Len(res)
           \* canonical leaf for each output position: ranks ascending
           pos == [k \in 1..Len(Ev.ranks) |-> IF \E i \in 1..n : rank[i] = Ev.ranks[k] THEN CHOOSE i \in 1..n : rank[i] = Ev.ranks[k] ELSE 0]
           stepwise == /\ n > 0 /\ Cardinality((DOMAIN node) \ consumed) = 1 /\ Len(Ev.seqs) = n /\ \A k \in 1..n : pos[k] > 0
                       /\ \A c \in (DOMAIN node) \ consumed : node[c].members # <<>>
           d == IF stepwise /\ \E k \in 1..n : Ev.seqs[k] # Render(res[pos[k]], gaps[pos[k]]) THEN {"Out.rows#Render"} ELSE {}
       IN Report(OutChecks(Ev.names, Ev.seqs, TRUE)
                 \cup (IF Ev.final # 1 THEN {"C01:status"} ELSE {})
                 \cup (IF Ev.rows = 1 /\ Len(Ev.seqs) > 0 /\ Len(Ev.seqs[1]) # Ev.alnlen THEN {"C01:alnlen"} ELSE {}), d)

TOutFile ==
    /\ Is("Out")
    /\ l' = l + 1
    /\ UNCHANGED <<sid, recs, rank, res, gaps, node, consumed, tasks, outrows>>
    /\ Report(OutChecks(Ev.names, Ev.rows, Ev.hasnames = 1)
              \cup (IF outrows # <<>> /\ Ev.rows # outrows THEN {"C01:file-differs-from-object"} ELSE {}), {})

TArr ==
    /\ Is("Arr")
    /\ l' = l + 1
    /\ UNCHANGED <<sid, recs, rank, res, gaps, node, consumed, tasks, outrows>>
    /\ Report(IF Ev.rc # 0 THEN {"C01:array-api-failed"}
              ELSE OutChecks(<<>>, Ev.rows, FALSE)
                   \cup (IF Len(Ev.rows) > 0 /\ Len(Ev.rows[1]) # Ev.alnlen THEN {"C01:alnlen"} ELSE {}), {})

TOtherObj ==
    /\ Is("Obj") /\ Ev.tag \notin {"in", "out"}
    /\ l' = l + 1
    /\ UNCHANGED <<sid, recs, rank, res, gaps, node, consumed, tasks, outrows>>
    /\ Report({}, {})

(* a crashed or truncated execution is not explained by any action *)
Next ==
    \/ TReset \/ TNote \/ TSkip \/ TGiven \/ TIn \/ TSorted \/ TTree \/ TMergeEnd \/ TMergeEndDigest
    \/ TFinal \/ TOutObj \/ TOutFile \/ TArr \/ TOtherObj

Spec == Init /\ [][Next]_vars

NoViolation == viol = {}

(* acceptance: every line was consumed *)
Accepted == TLCGet("stats").diameter - 1 = Len(Trace)
=============================================================================
