------------------------------- MODULE Writer -------------------------------
(***************************************************************************)
(* What a written alignment file must look like (msa_io.c write_msa_fasta,  *)
(* write_msa_clu, write_msa_msf; msa_misc.c GCG checksums), stated on a     *)
(* layout: the file split into fields by a tokenizer that knows the line    *)
(* syntax of the format but nothing about alignments.                       *)
(*   FASTA   one record per row: ">name", then the row in lines of exactly  *)
(*           BW columns except the last one (1..BW)                         *)
(*   Clustal header line, blank line, ceil(W/BW) blocks; every block holds  *)
(*           every sequence once, in row order: name, padding, the next     *)
(*           segment (1..BW columns) of its row                             *)
(*   MSF     !!AA_/!!NA_ line by molecule type, "MSF: <W> Type: <P|N>       *)
(*           Check: <sum>", one Name/Len/Check line per row (Len = W,       *)
(*           Check = GCG of the full gapped row), "//", blocks as Clustal   *)
(* BW is 60 in kalign.  Properties served: C15, C06, C01.                   *)
(***************************************************************************)
EXTENDS Integers, Sequences, SequencesExt, FiniteSets, Ascii

(* GCG checksum of a row (squid): sum of (i mod 57 + 1) * toupper(c), modulo 10000, i from 0 *)
GCG(row) ==
    FoldLeft(LAMBDA acc, i : (acc + (((i - 1) % 57) + 1) * Upper(row[i])) % 10000, 0, [i \in 1..Len(row) |-> i])

GCGMult(rows) == FoldLeft(LAMBDA acc, r : (acc + GCG(r)) % 10000, 0, rows)

CeilDiv(a, b) == (a + b - 1) \div b

Width(rows) == IF Len(rows) = 0 THEN 0 ELSE Len(rows[1])

(* the line lengths a row of width W is wrapped into *)
WrapLens(W, BW) == [k \in 1..CeilDiv(W, BW) |-> IF k * BW <= W THEN BW ELSE W - (k - 1) * BW]

FastaOk(lay, names, rows, BW) ==
    /\ Len(lay.records) = Len(rows)
    /\ \A i \in 1..Len(rows) :
        /\ lay.records[i].name = names[i]
        /\ lay.records[i].row = rows[i]
        /\ lay.records[i].linelens = WrapLens(Len(rows[i]), BW)

Segment(row, k, BW) == SubSeq(row, (k - 1) * BW + 1, IF k * BW <= Len(row) THEN k * BW ELSE Len(row))

BlocksOk(blocks, names, rows, BW) ==
    LET W == Width(rows)
    IN /\ Len(blocks) = CeilDiv(W, BW)
       /\ \A k \in 1..Len(blocks) :
            /\ Len(blocks[k]) = Len(rows)
            /\ \A i \in 1..Len(rows) :
                 /\ blocks[k][i].name = names[i]
                 /\ blocks[k][i].pad >= 1
                 /\ blocks[k][i].seg = Segment(rows[i], k, BW)
            \* the segments of one block start in the same text column
            /\ \A i, j \in 1..Len(rows) : blocks[k][i].namecol = blocks[k][j].namecol

CluOk(lay, names, rows, BW) ==
    /\ lay.header_has_msa = 1
    /\ lay.second_blank = 1
    /\ BlocksOk(lay.blocks, names, rows, BW)

(* biotype: 0 protein, 1 nucleic acid (msa_struct.h) *)
MsfOk(lay, names, rows, biotype, BW) ==
    /\ lay.bang = (IF biotype = 0 THEN "AA" ELSE "NA")
    /\ lay.msf_type = (IF biotype = 0 THEN "P" ELSE "N")
    /\ lay.msf_len = Width(rows)
    /\ lay.msf_check = GCGMult(rows)
    /\ Len(lay.names) = Len(rows)
    /\ \A i \in 1..Len(rows) :
         /\ lay.names[i].name = names[i]
         /\ lay.names[i].len = Width(rows)
         /\ lay.names[i].check = GCG(rows[i])
    /\ lay.has_sep = 1
    /\ BlocksOk(lay.blocks, names, rows, BW)

(* which requirement of a format fails (for the verdict message) *)
MsfFailures(lay, names, rows, biotype, BW) ==
    (IF lay.bang # (IF biotype = 0 THEN "AA" ELSE "NA") \/ lay.msf_type # (IF biotype = 0 THEN "P" ELSE "N") THEN {"C15:msf-molecule-type"} ELSE {})
    \cup (IF lay.msf_len # Width(rows) \/ (\E i \in 1..Len(lay.names) : lay.names[i].len # Width(rows)) THEN {"C15:msf-declared-length"} ELSE {})
    \cup (IF lay.msf_check # GCGMult(rows) \/ Len(lay.names) # Len(rows) \/ (\E i \in 1..Len(lay.names) : i <= Len(rows) /\ lay.names[i].check # GCG(rows[i])) THEN {"C15:msf-checksum"} ELSE {})
    \cup (IF Len(lay.names) # Len(rows) \/ (\E i \in 1..Len(lay.names) : i <= Len(rows) /\ lay.names[i].name # names[i]) THEN {"C15:msf-name-lines"} ELSE {})
    \cup (IF lay.has_sep # 1 \/ ~BlocksOk(lay.blocks, names, rows, BW) THEN {"C15:msf-blocks"} ELSE {})
=============================================================================
