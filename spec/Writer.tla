------------------------------- MODULE Writer -------------------------------
(***************************************************************************)
(* What a written alignment file must look like (msa_io.c write_msa_fasta,  *)
(* write_msa_clu, write_msa_msf; msa_misc.c GCG checksums), stated on a     *)
(* layout: the file split into fields by a tokenizer that knows the line    *)
(* syntax of the format but nothing about alignments.                       *)
(*   FASTA   one record per row: ">name", then the row in lines of exactly  *)
(*           BW columns except the last one (1..BW)                         *)
(*   Clustal header line, blank line, ceil(W/BW) blocks; every block holds  *)
(*           every sequence once, in row order: name, padding, the next     *)
(*           segment (1..BW columns) of its row                             *)
(*   MSF     !!AA_/!!NA_ line by molecule type, "MSF: <W> Type: <P|N>       *)
(*           Check: <sum>", one Name/Len/Check line per row (Len = W,       *)
(*           Check = GCG of the full gapped row), "//", blocks as Clustal   *)
(* BW is 60 in kalign.  Properties served: C15, C06, C01.                   *)
(***************************************************************************)
EXTENDS Integers, Sequences, SequencesExt, FiniteSets, Ascii

(* GCG checksum of a row (squid): sum of (i mod 57 + 1) * toupper(c), modulo 10000, i from 0 *)
GCG(row) ==
    FoldLeft(LAMBDA acc, i : (acc + (((i - 1) % 57) + 1) * Upper(row[i])) % 10000, 0, [i \in 1..Len(row) |-> i])

GCGMult(rows) == FoldLeft(LAMBDA acc, r : (acc + GCG(r)) % 10000, 0, rows)

CeilDiv(a, b) == (a + b - 1) \div b

Width(rows) == IF Len(rows) = 0 THEN 0 ELSE Len(rows[1])

(* the line lengths a row of width W is wrapped into *)
WrapLens(W, BW) == [k \in 1..CeilDiv(W, BW) |-> IF k * BW <= W THEN BW ELSE W - (k - 1) * BW]

FastaOk(lay, names, rows, BW) ==
    /\ Len(lay.records) = Len(rows)
    /\ \A i \in 1..Len(rows) :
        /\ lay.records[i].name = names[i]
        /\ lay.records[i].row = rows[i]
        /\ lay.records[i].linelens = WrapLens(Len(rows[i]), BW)

(* a name in a block format: the object's name, or - for names longer than the 255 bytes the block writers are built for - a
   prefix of it of at least 255 characters; whatever is kept, it is the same text on the header line and on every row *)
NameKept(inFile, name) == inFile = name \/ (Len(name) > 255 /\ Len(inFile) >= 255 /\ Len(inFile) <= Len(name) /\ inFile = SubSeq(name, 1, Len(inFile)))

Segment(row, k, BW) == SubSeq(row, (k - 1) * BW + 1, IF k * BW <= Len(row) THEN k * BW ELSE Len(row))

BlocksOk(blocks, names, rows, BW) ==
    LET W == Width(rows)
    IN /\ Len(blocks) = CeilDiv(W, BW)
       /\ \A k \in 1..Len(blocks) :
            /\ Len(blocks[k]) = Len(rows)
            /\ \A i \in 1..Len(rows) :
                 /\ NameKept(blocks[k][i].name, names[i])
                 /\ blocks[k][i].name = blocks[1][i].name
                 /\ blocks[k][i].pad >= 1
                 /\ blocks[k][i].seg = Segment(rows[i], k, BW)
            \* the segments of one block start in the same text column
            /\ \A i, j \in 1..Len(rows) : blocks[k][i].namecol = blocks[k][j].namecol

CluOk(lay, names, rows, BW) ==
    /\ lay.header_has_msa = 1
    /\ lay.second_blank = 1
    /\ BlocksOk(lay.blocks, names, rows, BW)

(* biotype: 0 protein, 1 nucleic acid (msa_struct.h) *)
MsfOk(lay, names, rows, biotype, BW) ==
    /\ lay.bang = (IF biotype = 0 THEN "AA" ELSE "NA")
    /\ lay.msf_type = (IF biotype = 0 THEN "P" ELSE "N")
    /\ lay.msf_len = Width(rows)
    /\ lay.msf_check = GCGMult(rows)
    /\ Len(lay.names) = Len(rows)
    /\ \A i \in 1..Len(rows) :
         /\ NameKept(lay.names[i].name, names[i])
         /\ (Len(lay.blocks) > 0 /\ Len(lay.blocks[1]) = Len(rows) => lay.names[i].name = lay.blocks[1][i].name)
         /\ lay.names[i].len = Width(rows)
         /\ lay.names[i].check = GCG(rows[i])
    /\ lay.has_sep = 1
    /\ BlocksOk(lay.blocks, names, rows, BW)

-----------------------------------------------------------------------------
(***************************************************************************)
(* The writers themselves, constructively: the exact lines kalign prints    *)
(* (msa_io.c).  Used for the design-level round trip (MC_RoundTrip: what    *)
(* Reader reads back from these lines is the alignment) and to compare      *)
(* written files line by line (WriterTrace).  The third line of an MSF      *)
(* file carries the file name and the date and is not modelled.             *)
(***************************************************************************)
Spaces(n) == [i \in 1..n |-> 32]
RECURSIVE DigitsOf(_)
DigitsOf(n) == IF n < 10 THEN <<48 + n>> ELSE DigitsOf(n \div 10) \o <<48 + (n % 10)>>
PadLeft(s, w) == IF Len(s) >= w THEN s ELSE Spaces(w - Len(s)) \o s
PadRight(s, w) == IF Len(s) >= w THEN s ELSE s \o Spaces(w - Len(s))
MaxNameLen(names) == FoldLeft(LAMBDA acc, nm : IF Len(nm) > acc THEN Len(nm) ELSE acc, 0, names)

FastaLines(names, rows, BW) ==
    FoldLeft(LAMBDA acc, i : acc \o <<(<<62>> \o names[i])>> \o [k \in 1..CeilDiv(Len(rows[i]), BW) |-> Segment(rows[i], k, BW)],
             <<>>, [i \in 1..Len(rows) |-> i])

Kept256(names) == [i \in 1..Len(names) |-> IF Len(names[i]) > 256 THEN SubSeq(names[i], 1, 256) ELSE names[i]]
BlockLines(names0, rows, BW) ==
    LET W == Width(rows)
        names == Kept256(names0)
        col == MaxNameLen(names) + 5
        block(k) == [i \in 1..Len(rows) |-> PadRight(names[i], col) \o Segment(rows[i], k, BW)] \o << <<>>, <<>> >>
    IN FoldLeft(LAMBDA acc, k : acc \o block(k), <<>>, [k \in 1..CeilDiv(W, BW) |-> k])

\* "Kalign (3.4.1) multiple sequence alignment"
CluHeader == <<75, 97, 108, 105, 103, 110, 32, 40, 51, 46, 52, 46, 49, 41, 32, 109, 117, 108, 116, 105, 112, 108, 101, 32, 115, 101, 113, 117, 101, 110, 99, 101, 32, 97, 108, 105, 103, 110, 109, 101, 110, 116>>
CluLines(names, rows, BW) == <<CluHeader, <<>>>> \o BlockLines(names, rows, BW)

BangAA == <<33, 33, 65, 65, 95, 77, 85, 76, 84, 73, 80, 76, 69, 95, 65, 76, 73, 71, 78, 77, 69, 78, 84, 32, 49, 46, 48>>
BangNA == <<33, 33, 78, 65, 95, 77, 85, 76, 84, 73, 80, 76, 69, 95, 65, 76, 73, 71, 78, 77, 69, 78, 84, 32, 49, 46, 48>>
\* " x  MSF: <W>  Type: <P|N>  <date>  Check: <sum>  .." with a fixed file name and date
MsfLine(W, biotype, chk) ==
    <<32, 120, 32, 32, 77, 83, 70, 58, 32>> \o DigitsOf(W) \o <<32, 32, 84, 121, 112, 101, 58, 32, (IF biotype = 0 THEN 80 ELSE 78), 32, 32, 100, 32, 32, 67, 104, 101, 99, 107, 58, 32>>
    \o DigitsOf(chk) \o <<32, 32, 46, 46>>
\* " Name: <name padded>  Len:  <%5d>  Check: <%4d>  Weight: 1.00"
MsfNameLine(name, w, W, chk) ==
    <<32, 78, 97, 109, 101, 58, 32>> \o PadRight(name, w) \o <<32, 32, 76, 101, 110, 58, 32, 32>> \o PadLeft(DigitsOf(W), 5)
    \o <<32, 32, 67, 104, 101, 99, 107, 58, 32>> \o PadLeft(DigitsOf(chk), 4) \o <<32, 32, 87, 101, 105, 103, 104, 116, 58, 32, 49, 46, 48, 48>>
MsfLines(names0, rows, biotype, BW) ==
    LET W == Width(rows)
        names == Kept256(names0)
        w == MaxNameLen(names)
    IN <<(IF biotype = 0 THEN BangAA ELSE BangNA), <<>>, MsfLine(W, biotype, GCGMult(rows)), <<>>>>
       \o [i \in 1..Len(rows) |-> MsfNameLine(names[i], w, W, GCG(rows[i]))]
       \o << <<>>, <<47, 47>>, <<>> >>
       \o BlockLines(names, rows, BW)

(* which requirement of a format fails (for the verdict message) *)
MsfFailures(lay, names, rows, biotype, BW) ==
    (IF lay.bang # (IF biotype = 0 THEN "AA" ELSE "NA") \/ lay.msf_type # (IF biotype = 0 THEN "P" ELSE "N") THEN {"C15:msf-molecule-type"} ELSE {})
    \cup (IF lay.msf_len # Width(rows) \/ (\E i \in 1..Len(lay.names) : lay.names[i].len # Width(rows)) THEN {"C15:msf-declared-length"} ELSE {})
    \cup (IF lay.msf_check # GCGMult(rows) \/ Len(lay.names) # Len(rows) \/ (\E i \in 1..Len(lay.names) : i <= Len(rows) /\ lay.names[i].check # GCG(rows[i])) THEN {"C15:msf-checksum"} ELSE {})
    \cup (IF Len(lay.names) # Len(rows) \/ (\E i \in 1..Len(lay.names) : i <= Len(rows) /\ (~NameKept(lay.names[i].name, names[i])
              \/ (Len(lay.blocks) > 0 /\ Len(lay.blocks[1]) = Len(rows) /\ lay.names[i].name # lay.blocks[1][i].name))) THEN {"C15:msf-name-lines"} ELSE {})
    \cup (IF lay.has_sep # 1 \/ ~BlocksOk(lay.blocks, names, rows, BW) THEN {"C15:msf-blocks"} ELSE {})
=============================================================================
