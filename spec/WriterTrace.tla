----------------------------- MODULE WriterTrace -----------------------------
(* C15: every Layout event (a file written by kalign, split into fields) is well-formed for the rows,
   names and molecule type of the object it was written from (the preceding Obj "out" event) *)
EXTENDS Writer, Json, IOUtils, TLC
Trace == ndJsonDeserialize(IOEnv.TRACE)
VARIABLES l, sid, obj, viol
vars == <<l, sid, obj, viol>>
Ev == Trace[l]
Is(e) == l <= Len(Trace) /\ Trace[l].e = e
BW == 60
Init == l = 1 /\ sid = "none" /\ obj = [k |-> "none"] /\ viol = {}
Report(v) == viol' = v /\ IF v # {} THEN PrintT(<<"KVFAIL", l, sid, v>>) ELSE TRUE

TNote == Is("Note") /\ l' = l + 1 /\ sid' = Ev.text /\ UNCHANGED obj /\ Report({})
TObj ==
    /\ Is("Obj") /\ Ev.tag = "out"
    /\ l' = l + 1
    /\ obj' = IF Ev.null = 0 /\ Ev.rows = 1 THEN [k |-> "ok", names |-> Ev.names, rows |-> Ev.seqs, biotype |-> Ev.biotype] ELSE [k |-> "none"]
    /\ UNCHANGED sid
    /\ Report({})
TLayout ==
    /\ Is("Layout")
    /\ l' = l + 1
    /\ UNCHANGED <<sid, obj>>
    /\ Report(IF obj.k # "ok" THEN {}
              ELSE IF Ev.fmt = "fasta" THEN (IF FastaOk(Ev, obj.names, obj.rows, BW) THEN {} ELSE {"C15:fasta-layout"})
              ELSE IF Ev.fmt = "clu" THEN (IF CluOk(Ev, obj.names, obj.rows, BW) THEN {} ELSE {"C15:clustal-layout"})
              ELSE MsfFailures(Ev, obj.names, obj.rows, obj.biotype, BW))
TOther ==
    /\ l <= Len(Trace) /\ ~(Ev.e = "Note" \/ Ev.e = "Layout" \/ (Ev.e = "Obj" /\ Ev.tag = "out"))
    /\ l' = l + 1 /\ UNCHANGED <<sid, obj>> /\ Report({})
Next == TNote \/ TObj \/ TLayout \/ TOther
Spec == Init /\ [][Next]_vars
NoViolation == viol = {}
Accepted == TLCGet("stats").diameter - 1 = Len(Trace)
=============================================================================
