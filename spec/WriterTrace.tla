----------------------------- MODULE WriterTrace -----------------------------
(* C15: every Layout event (a file written by kalign, split into fields) is well-formed for the rows,
   names and molecule type of the object it was written from (the preceding Obj "out" event) *)
EXTENDS Writer, Json, IOUtils, TLC
Trace == ndJsonDeserialize(IOEnv.TRACE)
VARIABLES l, sid, obj, viol
vars == <<l, sid, obj, viol>>
Ev == Trace[l]
Is(e) == l <= Len(Trace) /\ Trace[l].e = e
BW == 60
Init == l = 1 /\ sid = "none" /\ obj = [k |-> "none"] /\ viol = {}
Report(v) == viol' = v /\ IF v # {} THEN PrintT(<<"KVFAIL", l, sid, v>>) ELSE TRUE

TNote == Is("Note") /\ l' = l + 1 /\ sid' = Ev.text /\ UNCHANGED obj /\ Report({})
TObj ==
    /\ Is("Obj") /\ Ev.tag = "out"
    /\ l' = l + 1
    /\ obj' = IF Ev.null = 0 /\ Ev.rows = 1 THEN [k |-> "ok", names |-> Ev.names, rows |-> Ev.seqs, biotype |-> Ev.biotype] ELSE [k |-> "none"]
    /\ UNCHANGED sid
    /\ Report({})
TLayout ==
    /\ Is("Layout")
    /\ l' = l + 1
    /\ UNCHANGED <<sid, obj>>
    /\ Report(IF obj.k # "ok" THEN {}
              ELSE IF Ev.fmt = "fasta" THEN (IF FastaOk(Ev, obj.names, obj.rows, BW) THEN {} ELSE {"C15:fasta-layout"})
              ELSE IF Ev.fmt = "clu" THEN (IF CluOk(Ev, obj.names, obj.rows, BW) THEN {} ELSE {"C15:clustal-layout"})
              ELSE MsfFailures(Ev, obj.names, obj.rows, obj.biotype, BW))
(* the file, line by line, against the constructive writers of Writer.tla (diagnostic: a legitimate change of padding or header
   wording would differ here without breaking the layout requirement).  Line 3 of an MSF file (file name, date) is compared
   only from "MSF:" to "Type: X" and from "Check:" on. *)
DropTrailingBlank(ls) == IF Len(ls) > 0 /\ ls[Len(ls)] = <<>> THEN SubSeq(ls, 1, Len(ls) - 1) ELSE ls
SameLines(got, want, msf) ==
    /\ Len(got) = Len(want)
    /\ \A i \in 1..Len(got) : (msf /\ i = 3) \/ got[i] = want[i]
TLines ==
    /\ Is("Lines")
    /\ l' = l + 1
    /\ UNCHANGED <<sid, obj>>
    /\ viol' = {}
    /\ IF obj.k # "ok" THEN TRUE
       ELSE LET want == IF Ev.fmt = "fasta" THEN FastaLines(obj.names, obj.rows, BW)
                        ELSE IF Ev.fmt = "clu" THEN CluLines(obj.names, obj.rows, BW)
                        ELSE MsfLines(obj.names, obj.rows, obj.biotype, BW)
            IN IF SameLines(Ev.lines, want, Ev.fmt = "msf") THEN TRUE ELSE PrintT(<<"KVDIV", l, sid, {"Writer.lines-differ-from-model:" \o Ev.fmt}>>)
TOther ==
    /\ l <= Len(Trace) /\ ~(Ev.e = "Note" \/ Ev.e = "Layout" \/ Ev.e = "Lines" \/ (Ev.e = "Obj" /\ Ev.tag = "out"))
    /\ l' = l + 1 /\ UNCHANGED <<sid, obj>> /\ Report({})
Next == TNote \/ TObj \/ TLayout \/ TLines \/ TOther
Spec == Init /\ [][Next]_vars
NoViolation == viol = {}
Accepted == TLCGet("stats").diameter - 1 = Len(Trace)
=============================================================================
